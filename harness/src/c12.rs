//! C12: alpha blending.  Runs `verif::blend` (= alpha_blending::do_alpha_blending) and
//!  (1) decides the property natively (exact i64 arithmetic) on every case,
//!  (2) writes a sample of cases + results for the Coq model / Spec oracle (correspondence + formal decision).
use crate::util::*;
use image_webp::verif::blend;
use std::sync::atomic::{AtomicU64, Ordering};
use std::sync::Mutex;

#[derive(Default, Clone)]
pub struct Tally {
    pub evals: u64,
    pub transparent: u64,
    pub opaque: u64,
    pub mid: u64,
    pub known_opaque_dec: u64,
    pub max_alpha_err_255: i64,
    pub max_chan_weighted_num: i64, // max of |rc*D-N|*ra*1000/(255*D)  (milli code values)
}

/// verdict for one blend: Ok, Known (opaque source decremented: finding F14), or Err(what)
pub enum Verdict {
    Ok,
    Known,
    Bad(String),
}

pub fn judge(s: [u8; 4], d: [u8; 4], o: [u8; 4], t: &mut Tally) -> Verdict {
    t.evals += 1;
    let sa = s[3] as i64;
    let da = d[3] as i64;
    if sa == 0 {
        t.transparent += 1;
        return if o == d { Verdict::Ok } else { Verdict::Bad("transparent source changed the destination".into()) };
    }
    if sa == 255 {
        t.opaque += 1;
        if o == s {
            return Verdict::Ok;
        }
        let dec = |c: u8| if c == 0 { 0 } else { c - 1 };
        if o == [dec(s[0]), dec(s[1]), dec(s[2]), 255] {
            t.known_opaque_dec += 1;
            return Verdict::Known;
        }
        return Verdict::Bad("opaque source neither preserved nor in the known class".into());
    }
    t.mid += 1;
    let ra = o[3] as i64;
    let dd = 255 * sa + da * (255 - sa);
    let aerr = (255 * ra - dd).abs();
    t.max_alpha_err_255 = t.max_alpha_err_255.max(aerr);
    if aerr > 255 {
        return Verdict::Bad(format!("alpha {} not within 1 of exact {}/255", ra, dd));
    }
    for c in 0..3 {
        let sc = s[c] as i64;
        let dc = d[c] as i64;
        let rc = o[c] as i64;
        let n = 255 * sc * sa + dc * da * (255 - sa);
        let w = (rc * dd - n).abs() * ra;
        t.max_chan_weighted_num = t.max_chan_weighted_num.max(w * 1000 / (255 * dd));
        if w > 2 * 255 * dd {
            return Verdict::Bad(format!("channel {c}: {rc} more than 2 weighted code values from exact {n}/{dd}"));
        }
        if rc < sc.min(dc) - 1 || rc > sc.max(dc) + 1 {
            return Verdict::Bad(format!("channel {c}: {rc} outside [min-1,max+1] of {sc},{dc}"));
        }
    }
    Verdict::Ok
}

fn fmt_case(s: [u8; 4], d: [u8; 4]) -> String {
    format!("blend {} {} {} {} {} {} {} {}", s[0], s[1], s[2], s[3], d[0], d[1], d[2], d[3])
}
fn fmt_res(o: Result<[u8; 4], String>) -> String {
    match o {
        Ok(o) => format!("{} {} {} {}", o[0], o[1], o[2], o[3]),
        Err(e) => format!("PANIC {}", e.replace('\n', " ")),
    }
}

pub fn run(tier: &str, seed: u64, outdir: &str, _extra: &[String]) {
    let mut out = Out::new(outdir);
    let mut rng = Rng::new(seed);
    let mut tally = Tally::default();
    let mut violations: Vec<String> = vec![];
    let mut known = 0u64;
    let mut panics = 0u64;
    let edge = [0u8, 1, 2, 127, 128, 253, 254, 255];
    let replay: Option<Vec<String>> = if tier == "replay" {
        Some(std::fs::read_to_string(&_extra[0]).unwrap().lines().map(|l| l.to_string()).collect())
    } else {
        None
    };

    let mut one = |s: [u8; 4], d: [u8; 4], tally: &mut Tally, sample: bool, out: &mut Out| {
        let r = catch(move || blend(s, d));
        match &r {
            Ok(o) => match judge(s, d, *o, tally) {
                Verdict::Ok => {}
                Verdict::Known => known += 1,
                Verdict::Bad(why) => {
                    if violations.len() < 20 {
                        violations.push(format!("{} -> {} : {}", fmt_case(s, d), fmt_res(Ok(*o)), why));
                    }
                }
            },
            Err(e) => {
                panics += 1;
                if violations.len() < 20 {
                    violations.push(format!("{} -> PANIC {}", fmt_case(s, d), e));
                }
            }
        }
        if sample {
            out.case(&fmt_case(s, d), &fmt_res(r));
        }
    };

    if let Some(lines) = &replay {
        for l in lines {
            let w: Vec<u8> = l.split_whitespace().skip(1).map(|x| x.parse().unwrap()).collect();
            if w.len() == 8 {
                one([w[0], w[1], w[2], w[3]], [w[4], w[5], w[6], w[7]], &mut tally, true, &mut out);
            }
        }
    }
    let run_all = replay.is_none();
    // (a) every (sa, da) pair x edge channel values (exhaustive over the pairs); a deterministic 1/64 of them sampled for the oracle
    let mut k = 0u64;
    for sa in 0..=(if run_all { 255u8 } else { 0 }) {
        for da in 0..=(if run_all { 255u8 } else { 0 }) {
            for &sc in &edge {
                for &dc in &edge {
                    let s = [sc, sc ^ 0x55, 255 - sc, sa];
                    let d = [dc, 255 - dc, dc ^ 0x33, da];
                    k += 1;
                    let sample = (k.wrapping_mul(0x9E37) + seed) % 1024 == 0;
                    one(s, d, &mut tally, sample, &mut out);
                }
            }
        }
    }
    // (b) seeded random quadruples, biased towards alpha extremes
    let nrand: u64 = if !run_all { 0 } else if tier == "thorough" { 2_000_000 } else { 200_000 };
    let nsample: u64 = if tier == "thorough" { 20_000 } else { 4_000 };
    for i in 0..nrand {
        let mut s = [rng.byte(), rng.byte(), rng.byte(), rng.byte()];
        let d = [rng.byte(), rng.byte(), rng.byte(), rng.byte()];
        match rng.below(16) {
            0 => s[3] = 0,
            1 => s[3] = 255,
            2 => s[3] = 1,
            3 => s[3] = 254,
            _ => {}
        }
        one(s, d, &mut tally, i < nsample, &mut out);
    }
    drop(one);

    // (c) thorough: the complete domain, channel-wise: all 2^32 (sc, sa, dc, da), in parallel
    let mut exhaustive = false;
    if tier == "thorough" {
        let total = AtomicU64::new(0);
        let bad: Mutex<Vec<String>> = Mutex::new(vec![]);
        let knownc = AtomicU64::new(0);
        let tall: Mutex<Tally> = Mutex::new(Tally::default());
        std::thread::scope(|sc_| {
            for th in 0..16u32 {
                let total = &total;
                let bad = &bad;
                let knownc = &knownc;
                let tall = &tall;
                sc_.spawn(move || {
                    let mut t = Tally::default();
                    let mut kn = 0u64;
                    for sa in (th..256).step_by(16) {
                        for da in 0..=255u8 {
                            for sc in 0..=255u8 {
                                for dc in 0..=255u8 {
                                    let s = [sc, sc, sc, sa as u8];
                                    let d = [dc, dc, dc, da];
                                    let o = blend(s, d);
                                    match judge(s, d, o, &mut t) {
                                        Verdict::Ok => {}
                                        Verdict::Known => kn += 1,
                                        Verdict::Bad(why) => {
                                            let mut b = bad.lock().unwrap();
                                            if b.len() < 20 {
                                                b.push(format!("{} -> {} : {}", fmt_case(s, d), fmt_res(Ok(o)), why));
                                            }
                                        }
                                    }
                                }
                            }
                        }
                    }
                    total.fetch_add(t.evals, Ordering::Relaxed);
                    knownc.fetch_add(kn, Ordering::Relaxed);
                    let mut g = tall.lock().unwrap();
                    g.max_alpha_err_255 = g.max_alpha_err_255.max(t.max_alpha_err_255);
                    g.max_chan_weighted_num = g.max_chan_weighted_num.max(t.max_chan_weighted_num);
                    g.transparent += t.transparent;
                    g.opaque += t.opaque;
                    g.mid += t.mid;
                    g.known_opaque_dec += t.known_opaque_dec;
                });
            }
        });
        let g = tall.lock().unwrap();
        tally.evals += total.load(Ordering::Relaxed);
        tally.transparent += g.transparent;
        tally.opaque += g.opaque;
        tally.mid += g.mid;
        tally.known_opaque_dec += g.known_opaque_dec;
        tally.max_alpha_err_255 = tally.max_alpha_err_255.max(g.max_alpha_err_255);
        tally.max_chan_weighted_num = tally.max_chan_weighted_num.max(g.max_chan_weighted_num);
        known += knownc.load(Ordering::Relaxed);
        for b in bad.lock().unwrap().iter() {
            if violations.len() < 20 {
                violations.push(b.clone());
            }
        }
        exhaustive = true;
    }

    let stats = format!(
        "{{\"evaluations\": {}, \"transparent\": {}, \"opaque\": {}, \"mid\": {}, \"known_opaque_dec\": {}, \"known\": {}, \"panics\": {}, \"max_alpha_err_x255\": {}, \"max_chan_err_milli\": {}, \"sampled_for_oracle\": {}, \"exhaustive_2pow32\": {}, \"violations\": [{}]}}",
        tally.evals, tally.transparent, tally.opaque, tally.mid, tally.known_opaque_dec, known, panics,
        tally.max_alpha_err_255, tally.max_chan_weighted_num, out.n, exhaustive,
        violations.iter().map(|v| jstr(v)).collect::<Vec<_>>().join(", ")
    );
    out.finish(&stats);
}
