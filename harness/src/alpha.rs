//! Alpha application loop (C05 alpha clause, C11, C03): hook verif::apply_alpha vs an independent transcription of the
//! container spec's un-filtering; cases for the Coq Model/Spec oracle.
use crate::util::*;
use image_webp::verif::apply_alpha;

/// container-spec un-filtering (independent of the crate)
pub fn spec_unfilter(filter: u8, w: usize, h: usize, data: &[u8]) -> Vec<u8> {
    let mut a = vec![0u8; w * h];
    for y in 0..h {
        for x in 0..w {
            let at = |xx: usize, yy: usize| a[yy * w + xx] as i32;
            let p: i32 = match (filter, x, y) {
                (0, _, _) => 0,
                (_, 0, 0) => 0,
                (1, 0, _) => at(0, y - 1),
                (1, _, _) => at(x - 1, y),
                (2, _, 0) => at(x - 1, 0),
                (2, _, _) => at(x, y - 1),
                (_, 0, _) => at(0, y - 1),
                (_, _, 0) => at(x - 1, 0),
                _ => (at(x - 1, y) + at(x, y - 1) - at(x - 1, y - 1)).clamp(0, 255),
            };
            a[y * w + x] = (p as u8).wrapping_add(data[y * w + x]);
        }
    }
    a
}

pub fn run(tier: &str, seed: u64, outdir: &str, extra: &[String]) {
    let mut out = Out::new(outdir);
    let mut rng = Rng::new(seed);
    let mut violations: Vec<String> = vec![];
    let mut per_filter = [0u64; 4];
    let mut cases: Vec<(usize, usize, u8, Vec<u8>, Vec<u8>)> = vec![];
    if tier == "replay" {
        for l in std::fs::read_to_string(&extra[0]).unwrap().lines() {
            let ws: Vec<&str> = l.split_whitespace().collect();
            if ws.len() == 5 && ws[0] == "alpha" {
                let w: usize = ws[1].parse().unwrap();
                let data = unhex(ws[3]);
                cases.push((w, data.len() / w.max(1), ws[2].parse().unwrap(), data, unhex(ws[4])));
            }
        }
    } else {
        let n = if tier == "thorough" { 20000 } else { 2500 };
        for i in 0..n {
            let w = *rng.pick(&[1usize, 1, 2, 3, 4, 7, 8, 15, 16, 17]);
            let h = *rng.pick(&[1usize, 1, 2, 3, 5, 8, 9]);
            let f = (i % 4) as u8;
            let style = rng.below(4);
            let data: Vec<u8> = (0..w * h).map(|k| match style { 0 => rng.byte(), 1 => 255, 2 => (k as u8).wrapping_mul(3), _ => *rng.pick(&[0u8, 1, 127, 128, 254, 255]) }).collect();
            let buf = rng.bytes(w * h * 4);
            cases.push((w, h, f, data, buf));
        }
    }
    for (w, h, f, data, buf0) in &cases {
        per_filter[*f as usize & 3] += 1;
        let (d2, mut b2) = (data.clone(), buf0.clone());
        let (w2, h2, f2) = (*w, *h, *f);
        let r = catch(move || { apply_alpha(w2 as u16, h2 as u16, f2, &d2, &mut b2); b2 });
        let case = format!("alpha {} {} {} {}", w, f, hex(data), hex(buf0));
        match r {
            Ok(o) => {
                let spec = spec_unfilter(*f, *w, *h, data);
                for i in 0..w * h {
                    if o[4 * i + 3] != spec[i] { if violations.len() < 20 { violations.push(format!("{case} : alpha of pixel {i} is {} but the container spec gives {}", o[4 * i + 3], spec[i])); } break; }
                    if o[4 * i..4 * i + 3] != buf0[4 * i..4 * i + 3] { if violations.len() < 20 { violations.push(format!("{case} : colour bytes of pixel {i} modified")); } break; }
                }
                out.case(&case, &format!("OK {}", hex(&o)));
            }
            Err(e) => { if violations.len() < 20 { violations.push(format!("{case} : PANIC {e}")); } out.case(&case, "PANIC"); }
        }
    }
    let stats = format!("{{\"evaluations\": {}, \"per_filter\": [{}, {}, {}, {}], \"violations\": [{}]}}",
        cases.len(), per_filter[0], per_filter[1], per_filter[2], per_filter[3],
        violations.iter().map(|v| jstr(v)).collect::<Vec<_>>().join(", "));
    out.finish(&stats);
}
