//! C13: YUV -> RGB.  Hooks verif::fill_rgb / fill_rgba on synthetic planes.
//!  (1) native decision of the property against a transcription of libwebp yuv.h (i32 arithmetic) on every pixel;
//!  (2) cases for the Coq Model/Spec oracle.
//! thorough: all 2^24 triples x {first of pair, second of pair, odd tail} x {RGB, RGBA writer}.
use crate::util::*;
use image_webp::verif::{fill_rgb, fill_rgba};

fn mult_hi(v: i32, c: i32) -> i32 { (v * c) >> 8 }
fn clip8(v: i32) -> u8 {
    if (v & !((256 << 6) - 1)) == 0 { (v >> 6) as u8 } else if v < 0 { 0 } else { 255 }
}
pub fn ref_rgb(y: u8, u: u8, v: u8) -> [u8; 3] {
    let (y, u, v) = (y as i32, u as i32, v as i32);
    [
        clip8(mult_hi(y, 19077) + mult_hi(v, 26149) - 14234),
        clip8(mult_hi(y, 19077) - mult_hi(u, 6419) - mult_hi(v, 13320) + 8708),
        clip8(mult_hi(y, 19077) + mult_hi(u, 33050) - 17685),
    ]
}

/// run one plane through a writer; returns output buffer or panic text
fn run_plane(rgba: bool, w: usize, h: usize, y: &[u8], u: &[u8], v: &[u8], buf0: &[u8]) -> Result<Vec<u8>, String> {
    let (y, u, v, mut buf) = (y.to_vec(), u.to_vec(), v.to_vec(), buf0.to_vec());
    catch(move || {
        if rgba { fill_rgba(w as u16, h as u16, &y, &u, &v, &mut buf) } else { fill_rgb(w as u16, h as u16, &y, &u, &v, &mut buf) }
        buf
    })
}

/// property decision for one plane
fn judge(rgba: bool, w: usize, h: usize, y: &[u8], u: &[u8], v: &[u8], buf0: &[u8], out: &[u8]) -> Option<String> {
    let bpp = if rgba { 4 } else { 3 };
    let cw = (w + 1) / 2;
    if out.len() != w * h * bpp { return Some("output length changed".into()); }
    for r in 0..h {
        for x in 0..w {
            let e = ref_rgb(y[r * w + x], u[cw * (r / 2) + x / 2], v[cw * (r / 2) + x / 2]);
            let o = &out[(r * w + x) * bpp..];
            if o[..3] != e {
                return Some(format!("pixel ({x},{r}) of {w}x{h} {}: got {:?} want {:?} for yuv ({},{},{})", if rgba {"rgba"} else {"rgb"}, &o[..3], e, y[r*w+x], u[cw*(r/2)+x/2], v[cw*(r/2)+x/2]));
            }
            if rgba && o[3] != buf0[(r * w + x) * 4 + 3] {
                return Some(format!("alpha byte of pixel ({x},{r}) modified"));
            }
        }
    }
    None
}

fn case_line(rgba: bool, w: usize, h: usize, y: &[u8], u: &[u8], v: &[u8], buf0: &[u8]) -> String {
    format!("yuv {} {} {} {} {} {} {}", if rgba { "rgba" } else { "rgb" }, w, h, hex(y), hex(u), hex(v), hex(buf0))
}

pub fn run(tier: &str, seed: u64, outdir: &str, extra: &[String]) {
    let mut out = Out::new(outdir);
    let mut rng = Rng::new(seed);
    let mut violations: Vec<String> = vec![];
    let (mut evals, mut pixels, mut odd_w, mut odd_h, mut panics) = (0u64, 0u64, 0u64, 0u64, 0u64);
    let mut distinct_triples = std::collections::HashSet::new();

    let mut one = |rgba: bool, w: usize, h: usize, y: &[u8], u: &[u8], v: &[u8], buf0: &[u8], sample: bool, out: &mut Out| {
        let r = run_plane(rgba, w, h, y, u, v, buf0);
        evals += 1;
        pixels += (w * h) as u64;
        if w % 2 == 1 { odd_w += 1; }
        if h % 2 == 1 { odd_h += 1; }
        let res = match &r {
            Ok(o) => {
                if let Some(why) = judge(rgba, w, h, y, u, v, buf0, o) {
                    if violations.len() < 20 { violations.push(format!("{} : {}", case_line(rgba, w, h, y, u, v, buf0), why)); }
                }
                format!("OK {}", hex(o))
            }
            Err(e) => {
                panics += 1;
                if violations.len() < 20 { violations.push(format!("{} : PANIC {}", case_line(rgba, w, h, y, u, v, buf0), e)); }
                "PANIC".to_string()
            }
        };
        if sample { out.case(&case_line(rgba, w, h, y, u, v, buf0), &res); }
    };

    if tier == "replay" {
        for l in std::fs::read_to_string(&extra[0]).unwrap().lines() {
            let ws: Vec<&str> = l.split_whitespace().collect();
            if ws.len() == 8 && ws[0] == "yuv" {
                one(ws[1] == "rgba", ws[2].parse().unwrap(), ws[3].parse().unwrap(), &unhex(ws[4]), &unhex(ws[5]), &unhex(ws[6]), &unhex(ws[7]), true, &mut out);
            }
        }
    } else {
        // (a) random small planes, every parity of width and height, both writers, random pre-filled buffers
        let n = if tier == "thorough" { 6000 } else { 1200 };
        for i in 0..n {
            let w = rng.range(1, 9) as usize;
            let h = rng.range(1, 7) as usize;
            let (cw, ch) = ((w + 1) / 2, (h + 1) / 2);
            let edge = rng.chance(1, 3);
            let mut gen = |n: usize, rng: &mut Rng| -> Vec<u8> {
                (0..n).map(|_| if edge { *rng.pick(&[0u8, 1, 15, 16, 17, 127, 128, 129, 234, 235, 236, 239, 240, 254, 255]) } else { rng.byte() }).collect()
            };
            let (y, u, v) = (gen(w * h, &mut rng), gen(cw * ch, &mut rng), gen(cw * ch, &mut rng));
            for r in 0..h { for x in 0..w { distinct_triples.insert((y[r*w+x], u[cw*(r/2)+x/2], v[cw*(r/2)+x/2])); } }
            let rgba = i % 2 == 1;
            let buf0 = rng.bytes(w * h * if rgba { 4 } else { 3 });
            one(rgba, w, h, &y, &u, &v, &buf0, true, &mut out);
        }
        // (b) triple sweep through planes of width 3 (positions: first of pair, second of pair, odd tail):
        //     quick: a seeded 1/256 slice of the 2^24 triples; thorough: all of them
        let step: u32 = if tier == "thorough" { 1 } else { 256 };
        let off = (seed as u32) % step;
        let mut t = off;
        while t < (1 << 24) {
            // pack 64 consecutive sampled triples into one 3x64... keep it simple: rows of width 3, chroma per row pair
            let (yy, uu, vv) = ((t >> 16) as u8, (t >> 8) as u8, t as u8);
            // width 3, height 1: y = [yy, yy^0xff.., ...] all positions get the same triple
            let y = [yy, yy, yy];
            let u = [uu, uu];
            let v = [vv, vv];
            for rgba in [false, true] {
                let buf0: Vec<u8> = if rgba { vec![0xA5; 12] } else { vec![0x5A; 9] };
                // not sampled for the oracle (volume); the oracle sees set (a)
                let r = run_plane(rgba, 3, 1, &y, &u, &v, &buf0);
                evals += 1;
                pixels += 3;
                match r {
                    Ok(o) => if let Some(why) = judge(rgba, 3, 1, &y, &u, &v, &buf0, &o) {
                        if violations.len() < 20 { violations.push(format!("{} : {}", case_line(rgba, 3, 1, &y, &u, &v, &buf0), why)); }
                    },
                    Err(e) => { panics += 1; if violations.len() < 20 { violations.push(format!("{} : PANIC {}", case_line(rgba, 3, 1, &y, &u, &v, &buf0), e)); } }
                }
            }
            distinct_triples.insert((yy, uu, vv));
            t += step;
        }
    }
    let stats = format!(
        "{{\"evaluations\": {}, \"pixels\": {}, \"distinct_triples\": {}, \"odd_width_planes\": {}, \"odd_height_planes\": {}, \"panics\": {}, \"sampled_for_oracle\": {}, \"exhaustive_2pow24\": {}, \"violations\": [{}]}}",
        evals, pixels, distinct_triples.len(), odd_w, odd_h, panics, out.n, tier == "thorough",
        violations.iter().map(|v| jstr(v)).collect::<Vec<_>>().join(", "));
    out.finish(&stats);
}
