//! Seeded **VP8 key-frame writer**: a boolean *encoder* (the inverse of RFC 6386 section 7; a transcription of
//! libwebp's `VP8BitWriter`, src/utils/bit_writer_utils.c) plus a random frame "program" (`FrameSpec`) that is
//! serialised exactly in the order RFC 6386 section 9 / 19.2 (and libwebp's `VP8GetHeaders`, `ParseIntraMode`,
//! `ParseResiduals`) parse it.
//!
//! The description is an AST (`FrameSpec`), not a byte string, so that a disagreement can be *shrunk* by editing the
//! description (`c02.rs`) and so that the feature distribution of a run can be reported (`Features`).
//!
//! Everything that is legal in a key frame is reachable: every size residue mod 16, segmentation (map, absolute /
//! delta quantisers and filter levels, tree probabilities), both filter types, level 0..63, sharpness 0..7, loop-filter
//! deltas, 1/2/4/8 token partitions, coefficient probability updates, mb_no_coeff_skip with skip flags, all 4+10+4
//! intra modes, coefficient tokens from immediate EOB to DCT_CAT6, blocks ending in explicit zero tokens, non-zero
//! scale bits, profile (version) bits, clamp bit, reserved colour-space bit (off by default).
//!
//! Validity domain of the coefficients (`Domain`):
//!  * `Strict`: every coefficient entering the inverse DCT (after dequantisation, and after the inverse WHT for the
//!    luma DCs) lies in [-2048, 2047] -- the interval libwebp's kernels are specified for (src/dsp/dec.c, comment in
//!    `TransformOne_C`); its SIMD and C kernels agree there.
//!  * `Wide`: every dequantised coefficient and every WHT output fits `int16_t` and every product / sum of the
//!    C inverse DCT fits `int` -- the range in which libwebp's *C* code computes the RFC formulas without wrap-around.
#![allow(dead_code)]
use crate::util::Rng;
use std::collections::BTreeMap;

// ================================================================================================
// boolean entropy encoder (libwebp VP8BitWriter) and a plain RFC 6386 section 7.3 decoder for the self-check
// ================================================================================================

pub struct BoolWriter {
    range: i32, // range - 1, in [127, 254] between calls
    value: i32,
    run: i32,     // pending 0xff bytes
    nb_bits: i32, // pending bits - 8
    pub buf: Vec<u8>,
    /// every (probability, bit) pair written, when tracing
    pub trace: Vec<(u8, bool)>,
    tracing: bool,
}

impl BoolWriter {
    pub fn new(tracing: bool) -> Self {
        BoolWriter { range: 254, value: 0, run: 0, nb_bits: -8, buf: vec![], trace: vec![], tracing }
    }
    fn flush(&mut self) {
        let s = 8 + self.nb_bits;
        let bits = self.value >> s;
        self.value -= bits << s;
        self.nb_bits -= 8;
        if (bits & 0xff) != 0xff {
            if bits & 0x100 != 0 {
                // carry into the last byte written (never 0xff: those are held back in `run`)
                if let Some(l) = self.buf.last_mut() {
                    *l = l.wrapping_add(1);
                }
            }
            if self.run > 0 {
                let v = if bits & 0x100 != 0 { 0x00 } else { 0xff };
                for _ in 0..self.run {
                    self.buf.push(v);
                }
                self.run = 0;
            }
            self.buf.push((bits & 0xff) as u8);
        } else {
            self.run += 1;
        }
    }
    /// VP8PutBit
    pub fn put(&mut self, bit: bool, prob: u8) -> bool {
        if self.tracing {
            self.trace.push((prob, bit));
        }
        let split = (self.range * prob as i32) >> 8;
        if bit {
            self.value += split + 1;
            self.range -= split + 1;
        } else {
            self.range = split;
        }
        if self.range < 127 {
            let shift = ((self.range + 1) as u8).leading_zeros() as i32; // kNorm
            self.range = ((self.range + 1) << shift) - 1; // kNewRange
            self.value <<= shift;
            self.nb_bits += shift;
            if self.nb_bits > 0 {
                self.flush();
            }
        }
        bit
    }
    /// VP8PutBitUniform == put(bit, 128)
    pub fn flag(&mut self, bit: bool) -> bool {
        self.put(bit, 128)
    }
    /// VP8PutBits: `n` bits, most significant first
    pub fn literal(&mut self, value: u32, n: u32) {
        for i in (0..n).rev() {
            self.flag((value >> i) & 1 == 1);
        }
    }
    /// flag, magnitude, sign -- what `VP8Get ? VP8GetSignedValue : 0` / `read_optional_signed_value` read
    pub fn optional_signed(&mut self, v: Sv, n: u32) {
        match v {
            None => {
                self.flag(false);
            }
            Some((mag, neg)) => {
                self.flag(true);
                self.literal(mag as u32, n);
                self.flag(neg);
            }
        }
    }
    /// VP8BitWriterFinish
    pub fn finish(mut self) -> (Vec<u8>, Vec<(u8, bool)>) {
        let tr = self.tracing;
        self.tracing = false;
        let pad = 9 - self.nb_bits;
        self.literal(0, pad as u32);
        self.nb_bits = 0;
        self.flush();
        self.tracing = tr;
        (self.buf, self.trace)
    }
}

/// bool_decoder of RFC 6386 section 7.3 (two-byte window, bit-at-a-time renormalisation)
pub struct BoolReader<'a> {
    data: &'a [u8],
    pos: usize,
    value: u32,
    range: u32,
    bit_count: u32,
}
impl<'a> BoolReader<'a> {
    pub fn new(data: &'a [u8]) -> Self {
        let b = |i: usize| *data.get(i).unwrap_or(&0) as u32;
        BoolReader { data, pos: 2, value: (b(0) << 8) | b(1), range: 255, bit_count: 0 }
    }
    pub fn get(&mut self, prob: u8) -> bool {
        let split = 1 + (((self.range - 1) * prob as u32) >> 8);
        let big = split << 8;
        let r = if self.value >= big {
            self.range -= split;
            self.value -= big;
            true
        } else {
            self.range = split;
            false
        };
        while self.range < 128 {
            self.value <<= 1;
            self.range <<= 1;
            self.bit_count += 1;
            if self.bit_count == 8 {
                self.bit_count = 0;
                self.value |= *self.data.get(self.pos).unwrap_or(&0) as u32;
                self.pos += 1;
            }
        }
        r
    }
}

/// decode `bytes` against a recorded trace; `Err(i)` = first bit that does not come back
pub fn check_trace(bytes: &[u8], trace: &[(u8, bool)]) -> Result<(), usize> {
    let mut r = BoolReader::new(bytes);
    for (i, &(p, b)) in trace.iter().enumerate() {
        if r.get(p) != b {
            return Err(i);
        }
    }
    Ok(())
}

// ================================================================================================
// frame description
// ================================================================================================

/// optional signed header value: `None` = flag 0; `Some((magnitude, negative))`
pub type Sv = Option<(u8, bool)>;
pub fn sv(v: Sv) -> i32 {
    match v {
        None => 0,
        Some((m, true)) => -(m as i32),
        Some((m, false)) => m as i32,
    }
}

pub const DC_PRED: u8 = 0;
pub const TM_PRED: u8 = 1;
pub const V_PRED: u8 = 2;
pub const H_PRED: u8 = 3;
pub const B_PRED: u8 = 4;
pub const YMODE_NAMES: [&str; 5] = ["DC", "TM", "V", "H", "B"];
/// sub-block modes in libwebp's numbering (the numbering `BMODES_PROBA` is indexed with)
pub const BMODE_NAMES: [&str; 10] = ["B_DC", "B_TM", "B_VE", "B_HE", "B_RD", "B_VR", "B_LD", "B_VL", "B_HD", "B_HU"];
pub const UVMODE_NAMES: [&str; 4] = ["DC", "TM", "V", "H"];

pub const ZIGZAG: [usize; 16] = [0, 1, 4, 8, 5, 2, 3, 6, 9, 12, 13, 10, 7, 11, 14, 15];
pub const BANDS: [usize; 17] = [0, 1, 2, 3, 6, 4, 5, 6, 6, 6, 6, 6, 6, 6, 6, 7, 0];
const CAT3: [u8; 3] = [173, 148, 140];
const CAT4: [u8; 4] = [176, 155, 140, 135];
const CAT5: [u8; 5] = [180, 157, 141, 134, 130];
const CAT6: [u8; 11] = [254, 254, 243, 230, 196, 177, 153, 140, 133, 130, 129];

/// one 4x4 block: quantised levels in *scan* (zigzag) order; `run_to_end`: after the last non-zero level the block
/// is not closed by an EOB token but padded with explicit DCT_0 tokens up to position 16
#[derive(Clone, Copy, Debug, PartialEq)]
pub struct Block {
    pub levels: [i16; 16],
    pub run_to_end: bool,
}
impl Block {
    pub const EMPTY: Block = Block { levels: [0; 16], run_to_end: false };
    pub fn last(&self, first: usize) -> i32 {
        let mut last = -1;
        for n in first..16 {
            if self.levels[n] != 0 {
                last = n as i32;
            }
        }
        last
    }
    /// does the block code anything but an immediate EOB (== the "non-zero" context flag of both decoders)
    pub fn coded(&self, first: usize) -> bool {
        self.last(first) >= first as i32 || self.run_to_end
    }
}

#[derive(Clone, Debug, PartialEq)]
pub struct MbSpec {
    pub segment: u8,
    pub skip: bool,
    pub ymode: u8,
    pub bmodes: [u8; 16],
    pub uvmode: u8,
    /// 0..16 luma (raster order of the sub-blocks), 16..20 U, 20..24 V, 24 = Y2 (used when ymode != B_PRED)
    pub blocks: [Block; 25],
}
impl MbSpec {
    pub fn blank() -> MbSpec {
        MbSpec { segment: 0, skip: false, ymode: DC_PRED, bmodes: [0; 16], uvmode: 0, blocks: [Block::EMPTY; 25] }
    }
    pub fn is_i4(&self) -> bool {
        self.ymode == B_PRED
    }
}

#[derive(Clone, Debug, PartialEq)]
pub struct FrameSpec {
    pub width: u16,
    pub height: u16,
    pub xscale: u8,
    pub yscale: u8,
    pub version: u8,
    pub color_space: bool,
    pub clamp_type: bool,
    pub seg_enabled: bool,
    pub seg_update_map: bool,
    pub seg_update_data: bool,
    pub seg_abs: bool,
    pub seg_quant: [Sv; 4],
    pub seg_lf: [Sv; 4],
    pub seg_probs: [Option<u8>; 3],
    pub filter_simple: bool,
    pub filter_level: u8,
    pub sharpness: u8,
    pub lf_delta_enabled: bool,
    pub lf_delta_update: bool,
    pub ref_delta: [Sv; 4],
    pub mode_delta: [Sv; 4],
    pub log2_parts: u8,
    pub yac_qi: u8,
    /// y1dc, y2dc, y2ac, uvdc, uvac
    pub q_delta: [Sv; 5],
    pub refresh_entropy: bool,
    /// (type, band, ctx, node) -> new probability
    pub prob_updates: BTreeMap<(usize, usize, usize, usize), u8>,
    pub use_skip: bool,
    pub prob_skip: u8,
    pub mbs: Vec<MbSpec>,
    /// extra bytes appended to each partition (0 = first partition)
    pub padding: Vec<Vec<u8>>,
}

#[derive(Clone, Copy, Debug)]
pub struct Dq {
    pub y1: [i32; 2],
    pub y2: [i32; 2],
    pub uv: [i32; 2],
}

#[derive(Clone, Copy, PartialEq, Debug)]
pub enum Domain {
    Strict,
    Wide,
}

impl FrameSpec {
    pub fn mbw(&self) -> usize {
        (self.width as usize + 15) / 16
    }
    pub fn mbh(&self) -> usize {
        (self.height as usize + 15) / 16
    }
    pub fn num_parts(&self) -> usize {
        1 << self.log2_parts
    }
    pub fn seg_abs_eff(&self) -> bool {
        !self.seg_update_data || self.seg_abs
    }
    pub fn seg_quant_eff(&self, s: usize) -> i32 {
        if self.seg_update_data { sv(self.seg_quant[s]) } else { 0 }
    }
    pub fn seg_lf_eff(&self, s: usize) -> i32 {
        if self.seg_update_data { sv(self.seg_lf[s]) } else { 0 }
    }
    pub fn mb_segment(&self, mb: &MbSpec) -> usize {
        if self.seg_enabled && self.seg_update_map { mb.segment as usize & 3 } else { 0 }
    }
    pub fn mb_skipped(&self, mb: &MbSpec) -> bool {
        self.use_skip && mb.skip
    }
    pub fn coeff_probs(&self) -> [[[[u8; 11]; 3]; 8]; 4] {
        let mut p = COEFFS_PROBA0;
        for (&(t, b, c, n), &v) in &self.prob_updates {
            p[t][b][c][n] = v;
        }
        p
    }
    /// dequantisation factors of segment `s` (libwebp VP8ParseQuant == RFC 6386 section 9.6 / 14.1)
    pub fn dequant(&self, s: usize) -> Dq {
        let base = self.yac_qi as i32;
        let q = if self.seg_enabled {
            self.seg_quant_eff(s) + if self.seg_abs_eff() { 0 } else { base }
        } else {
            base
        };
        let clip = |v: i32, m: i32| v.clamp(0, m) as usize;
        let d: Vec<i32> = self.q_delta.iter().map(|&x| sv(x)).collect();
        let y2ac = (AC_TABLE[clip(q + d[2], 127)] as i32 * 155 / 100).max(8);
        Dq {
            y1: [DC_TABLE[clip(q + d[0], 127)] as i32, AC_TABLE[clip(q, 127)] as i32],
            y2: [DC_TABLE[clip(q + d[1], 127)] as i32 * 2, y2ac],
            uv: [DC_TABLE[clip(q + d[3], 117)] as i32, AC_TABLE[clip(q + d[4], 127)] as i32],
        }
    }
    /// loop-filter level of a macroblock class: (as libwebp computes it, as RFC 6386's reference decoder computes it).
    /// They differ only when the segment level leaves [0, 63] before the deltas are added (libwebp clamps once, at
    /// the end; the RFC decoder also clamps in between).
    pub fn filter_levels(&self, s: usize, i4x4: bool) -> (i32, i32) {
        let mut base = self.filter_level as i32;
        if self.seg_enabled {
            base = self.seg_lf_eff(s) + if self.seg_abs_eff() { 0 } else { base };
        }
        let mut delta = 0;
        if self.lf_delta_enabled && self.lf_delta_update {
            delta += sv(self.ref_delta[0]);
            if i4x4 {
                delta += sv(self.mode_delta[0]);
            }
        }
        ((base + delta).clamp(0, 63), (base.clamp(0, 63) + delta).clamp(0, 63))
    }
    /// does some macroblock of the frame get different levels from the two formulas (and is the filter on at all)
    pub fn lf_clamp_ambiguous(&self) -> bool {
        self.filter_level != 0
            && self.mbs.iter().any(|mb| {
                let (a, b) = self.filter_levels(self.mb_segment(mb), mb.is_i4());
                a != b
            })
    }
}

// ================================================================================================
// validity domain: the arithmetic of libwebp's C kernels, with explicit range checks
// ================================================================================================

fn fits(v: i64, lo: i64, hi: i64) -> bool {
    v >= lo && v <= hi
}
const I32LO: i64 = i32::MIN as i64;
const I32HI: i64 = i32::MAX as i64;

/// inverse DCT of one block (raster order input) as libwebp's TransformOne_C computes it; `None` when an
/// intermediate leaves `int`
fn idct_checked(inp: &[i64; 16]) -> Option<[i64; 16]> {
    fn mul1(a: i64) -> Option<i64> {
        let p = a * 20091;
        if !fits(p, I32LO, I32HI) {
            return None;
        }
        let r = (p >> 16) + a;
        if fits(r, I32LO, I32HI) { Some(r) } else { None }
    }
    fn mul2(a: i64) -> Option<i64> {
        let p = a * 35468;
        if fits(p, I32LO, I32HI) { Some(p >> 16) } else { None }
    }
    let chk = |v: i64| if fits(v, I32LO, I32HI) { Some(v) } else { None };
    let mut tmp = [0i64; 16];
    for i in 0..4 {
        let a = chk(inp[i] + inp[8 + i])?;
        let b = chk(inp[i] - inp[8 + i])?;
        let c = chk(mul2(inp[4 + i])? - mul1(inp[12 + i])?)?;
        let d = chk(mul1(inp[4 + i])? + mul2(inp[12 + i])?)?;
        tmp[4 * i] = chk(a + d)?;
        tmp[4 * i + 1] = chk(b + c)?;
        tmp[4 * i + 2] = chk(b - c)?;
        tmp[4 * i + 3] = chk(a - d)?;
    }
    let mut out = [0i64; 16];
    for i in 0..4 {
        let dc = chk(tmp[i] + 4)?;
        let a = chk(dc + tmp[8 + i])?;
        let b = chk(dc - tmp[8 + i])?;
        let c = chk(mul2(tmp[4 + i])? - mul1(tmp[12 + i])?)?;
        let d = chk(mul1(tmp[4 + i])? + mul2(tmp[12 + i])?)?;
        out[4 * i] = chk(a + d)? >> 3;
        out[4 * i + 1] = chk(b + c)? >> 3;
        out[4 * i + 2] = chk(b - c)? >> 3;
        out[4 * i + 3] = chk(a - d)? >> 3;
    }
    // the value added to a sample is below 2^28, so `dst + (v >> 3)` cannot overflow either
    Some(out)
}

/// inverse WHT (TransformWHT_C); the 16 results are the DC coefficients of the 16 luma blocks
fn iwht(inp: &[i64; 16]) -> [i64; 16] {
    let mut tmp = [0i64; 16];
    for i in 0..4 {
        let a0 = inp[i] + inp[12 + i];
        let a1 = inp[4 + i] + inp[8 + i];
        let a2 = inp[4 + i] - inp[8 + i];
        let a3 = inp[i] - inp[12 + i];
        tmp[i] = a0 + a1;
        tmp[8 + i] = a0 - a1;
        tmp[4 + i] = a3 + a2;
        tmp[12 + i] = a3 - a2;
    }
    let mut out = [0i64; 16];
    for i in 0..4 {
        let dc = tmp[i * 4] + 3;
        let a0 = dc + tmp[3 + i * 4];
        let a1 = tmp[1 + i * 4] + tmp[2 + i * 4];
        let a2 = tmp[1 + i * 4] - tmp[2 + i * 4];
        let a3 = dc - tmp[3 + i * 4];
        out[i * 4] = (a0 + a1) >> 3;
        out[i * 4 + 1] = (a3 + a2) >> 3;
        out[i * 4 + 2] = (a0 - a1) >> 3;
        out[i * 4 + 3] = (a3 - a2) >> 3;
    }
    out
}

/// Is the macroblock inside the validity domain `dom` for the dequantisation factors `dq`?
pub fn mb_in_range(mb: &MbSpec, dq: &Dq, dom: Domain) -> bool {
    let (lo, hi) = match dom {
        Domain::Strict => (-2048i64, 2047i64),
        Domain::Wide => (i16::MIN as i64, i16::MAX as i64),
    };
    let deq = |b: &Block, first: usize, q: &[i32; 2]| -> Option<[i64; 16]> {
        let mut r = [0i64; 16];
        for n in first..16 {
            let v = b.levels[n] as i64 * q[(n > 0) as usize] as i64;
            if !fits(v, lo, hi) {
                return None;
            }
            r[ZIGZAG[n]] = v;
        }
        Some(r)
    };
    let mut dcs = [0i64; 16];
    let first = if mb.is_i4() { 0 } else { 1 };
    if !mb.is_i4() {
        let Some(y2) = deq(&mb.blocks[24], 0, &dq.y2) else { return false };
        dcs = iwht(&y2);
        if dcs.iter().any(|&v| !fits(v, lo, hi)) {
            return false;
        }
    }
    for i in 0..24 {
        let q = if i < 16 { &dq.y1 } else { &dq.uv };
        let f = if i < 16 { first } else { 0 };
        let Some(mut c) = deq(&mb.blocks[i], f, q) else { return false };
        if i < 16 && !mb.is_i4() {
            c[0] = dcs[i];
        }
        if idct_checked(&c).is_none() {
            return false;
        }
    }
    true
}

// ================================================================================================
// serialisation
// ================================================================================================

pub struct Written {
    pub payload: Vec<u8>,
    /// sizes of the first partition and of each token partition
    pub part_sizes: Vec<usize>,
    /// the boolean-coder self-check (every partition decodes back to the bits written); always true unless the
    /// encoder is broken
    pub selfcheck_ok: bool,
}

/// coefficient tokens of one block (the mirror image of libwebp's GetCoeffs; cf. PutCoeffs in src/enc/frame_enc.c)
fn put_block(bw: &mut BoolWriter, probs: &[[[u8; 11]; 3]; 8], ctx: usize, first: usize, b: &Block) {
    let last = b.last(first);
    let mut n = first;
    let mut p = &probs[BANDS[n]][ctx];
    if !bw.put(last >= first as i32 || b.run_to_end, p[0]) {
        return; // immediate EOB
    }
    while n < 16 {
        let c = b.levels[n] as i32;
        n += 1;
        let neg = c < 0;
        let mut v = c.abs();
        if !bw.put(v != 0, p[1]) {
            p = &probs[BANDS[n]][0];
            continue; // DCT_0: no EOB test before the next token
        }
        if !bw.put(v > 1, p[2]) {
            p = &probs[BANDS[n]][1];
        } else {
            if !bw.put(v > 4, p[3]) {
                if bw.put(v != 2, p[4]) {
                    bw.put(v == 4, p[5]);
                }
            } else if !bw.put(v > 10, p[6]) {
                if !bw.put(v > 6, p[7]) {
                    bw.put(v == 6, 159);
                } else {
                    bw.put(v >= 9, 165);
                    bw.put(v & 1 == 0, 145);
                }
            } else {
                let (tab, nbits): (&[u8], u32) = if v < 3 + (8 << 1) {
                    bw.put(false, p[8]);
                    bw.put(false, p[9]);
                    v -= 3 + (8 << 0);
                    (&CAT3, 3)
                } else if v < 3 + (8 << 2) {
                    bw.put(false, p[8]);
                    bw.put(true, p[9]);
                    v -= 3 + (8 << 1);
                    (&CAT4, 4)
                } else if v < 3 + (8 << 3) {
                    bw.put(true, p[8]);
                    bw.put(false, p[10]);
                    v -= 3 + (8 << 2);
                    (&CAT5, 5)
                } else {
                    bw.put(true, p[8]);
                    bw.put(true, p[10]);
                    v -= 3 + (8 << 3);
                    (&CAT6, 11)
                };
                assert!(v >= 0 && v < (1 << nbits), "level out of token range");
                for k in 0..nbits {
                    bw.put((v >> (nbits - 1 - k)) & 1 == 1, tab[k as usize]);
                }
            }
            p = &probs[BANDS[n]][2];
        }
        bw.flag(neg);
        if n == 16 {
            return;
        }
        let more = (n as i32) <= last || b.run_to_end;
        if !bw.put(more, p[0]) {
            return; // EOB
        }
    }
}

pub fn write_frame(spec: &FrameSpec) -> Written {
    let (mbw, mbh) = (spec.mbw(), spec.mbh());
    assert_eq!(spec.mbs.len(), mbw * mbh);
    let nparts = spec.num_parts();
    let probs = spec.coeff_probs();
    let mut hd = BoolWriter::new(true);
    // ---- frame header (RFC 6386 section 19.2) ----
    hd.flag(spec.color_space);
    hd.flag(spec.clamp_type);
    hd.flag(spec.seg_enabled);
    if spec.seg_enabled {
        hd.flag(spec.seg_update_map);
        hd.flag(spec.seg_update_data);
        if spec.seg_update_data {
            hd.flag(spec.seg_abs);
            for s in 0..4 {
                hd.optional_signed(spec.seg_quant[s], 7);
            }
            for s in 0..4 {
                hd.optional_signed(spec.seg_lf[s], 6);
            }
        }
        if spec.seg_update_map {
            for s in 0..3 {
                match spec.seg_probs[s] {
                    None => {
                        hd.flag(false);
                    }
                    Some(p) => {
                        hd.flag(true);
                        hd.literal(p as u32, 8);
                    }
                }
            }
        }
    }
    hd.flag(spec.filter_simple);
    hd.literal(spec.filter_level as u32, 6);
    hd.literal(spec.sharpness as u32, 3);
    hd.flag(spec.lf_delta_enabled);
    if spec.lf_delta_enabled {
        hd.flag(spec.lf_delta_update);
        if spec.lf_delta_update {
            for i in 0..4 {
                hd.optional_signed(spec.ref_delta[i], 6);
            }
            for i in 0..4 {
                hd.optional_signed(spec.mode_delta[i], 6);
            }
        }
    }
    hd.literal(spec.log2_parts as u32, 2);
    hd.literal(spec.yac_qi as u32, 7);
    for i in 0..5 {
        hd.optional_signed(spec.q_delta[i], 4);
    }
    hd.flag(spec.refresh_entropy);
    for t in 0..4 {
        for b in 0..8 {
            for c in 0..3 {
                for n in 0..11 {
                    match spec.prob_updates.get(&(t, b, c, n)) {
                        Some(&v) => {
                            hd.put(true, COEFFS_UPDATE_PROBA[t][b][c][n]);
                            hd.literal(v as u32, 8);
                        }
                        None => {
                            hd.put(false, COEFFS_UPDATE_PROBA[t][b][c][n]);
                        }
                    }
                }
            }
        }
    }
    hd.flag(spec.use_skip);
    if spec.use_skip {
        hd.literal(spec.prob_skip as u32, 8);
    }
    // ---- macroblocks: modes into the first partition, tokens into partition (row mod nparts) ----
    let seg_p = [
        spec.seg_probs[0].unwrap_or(255),
        spec.seg_probs[1].unwrap_or(255),
        spec.seg_probs[2].unwrap_or(255),
    ];
    let mut parts: Vec<BoolWriter> = (0..nparts).map(|_| BoolWriter::new(true)).collect();
    let mut top_modes = vec![[0u8; 4]; mbw]; // B_DC_PRED
    let mut top_nz = vec![[false; 9]; mbw]; // 4 Y, 2 U, 2 V, DC
    for mby in 0..mbh {
        let mut left_modes = [0u8; 4];
        let mut left_nz = [false; 9];
        let tw = &mut parts[mby % nparts];
        for mbx in 0..mbw {
            let mb = &spec.mbs[mby * mbw + mbx];
            // -- modes (libwebp ParseIntraMode) --
            if spec.seg_enabled && spec.seg_update_map {
                let s = mb.segment & 3;
                if !hd.put(s >= 2, seg_p[0]) {
                    hd.put(s == 1, seg_p[1]);
                } else {
                    hd.put(s == 3, seg_p[2]);
                }
            }
            if spec.use_skip {
                hd.put(mb.skip, spec.prob_skip);
            }
            if mb.ymode == B_PRED {
                hd.put(false, 145);
                for y in 0..4 {
                    let mut l = left_modes[y];
                    for x in 0..4 {
                        let m = mb.bmodes[y * 4 + x];
                        let p = &BMODES_PROBA[top_modes[mbx][x] as usize][l as usize];
                        // DC TM VE | HE RD VR | LD VL HD HU
                        if hd.put(m != 0, p[0]) && hd.put(m != 1, p[1]) && hd.put(m != 2, p[2]) {
                            if !hd.put(m >= 6, p[3]) {
                                if hd.put(m != 3, p[4]) {
                                    hd.put(m != 4, p[5]);
                                }
                            } else if hd.put(m != 6, p[6]) && hd.put(m != 7, p[7]) {
                                hd.put(m != 8, p[8]);
                            }
                        }
                        top_modes[mbx][x] = m;
                        l = m;
                    }
                    left_modes[y] = l;
                }
            } else {
                hd.put(true, 145);
                match mb.ymode {
                    DC_PRED => {
                        hd.put(false, 156);
                        hd.put(false, 163);
                    }
                    V_PRED => {
                        hd.put(false, 156);
                        hd.put(true, 163);
                    }
                    H_PRED => {
                        hd.put(true, 156);
                        hd.put(false, 128);
                    }
                    _ => {
                        hd.put(true, 156);
                        hd.put(true, 128);
                    }
                }
                // DC_PRED = B_DC_PRED, TM_PRED = B_TM_PRED, V_PRED = B_VE_PRED, H_PRED = B_HE_PRED
                top_modes[mbx] = [mb.ymode; 4];
                left_modes = [mb.ymode; 4];
            }
            // uv mode: 0 DC, 1 TM, 2 V, 3 H
            if hd.put(mb.uvmode != 0, 142) && hd.put(mb.uvmode != 2, 114) {
                hd.put(mb.uvmode == 1, 183);
            }
            // -- residuals (libwebp ParseResiduals) --
            if spec.mb_skipped(mb) {
                for k in 0..8 {
                    top_nz[mbx][k] = false;
                    left_nz[k] = false;
                }
                if !mb.is_i4() {
                    top_nz[mbx][8] = false;
                    left_nz[8] = false;
                }
                continue;
            }
            let first;
            let ytype;
            if !mb.is_i4() {
                let ctx = top_nz[mbx][8] as usize + left_nz[8] as usize;
                put_block(tw, &probs[1], ctx, 0, &mb.blocks[24]);
                let nz = mb.blocks[24].coded(0);
                top_nz[mbx][8] = nz;
                left_nz[8] = nz;
                first = 1;
                ytype = 0;
            } else {
                first = 0;
                ytype = 3;
            }
            for y in 0..4 {
                for x in 0..4 {
                    let ctx = top_nz[mbx][x] as usize + left_nz[y] as usize;
                    let b = &mb.blocks[y * 4 + x];
                    put_block(tw, &probs[ytype], ctx, first, b);
                    let nz = b.coded(first);
                    top_nz[mbx][x] = nz;
                    left_nz[y] = nz;
                }
            }
            for ch in 0..2 {
                for y in 0..2 {
                    for x in 0..2 {
                        let (ti, li) = (4 + 2 * ch + x, 4 + 2 * ch + y);
                        let ctx = top_nz[mbx][ti] as usize + left_nz[li] as usize;
                        let b = &mb.blocks[16 + 4 * ch + 2 * y + x];
                        put_block(tw, &probs[2], ctx, 0, b);
                        let nz = b.coded(0);
                        top_nz[mbx][ti] = nz;
                        left_nz[li] = nz;
                    }
                }
            }
        }
    }
    // ---- assemble ----
    let mut selfcheck_ok = true;
    let mut finish = |w: BoolWriter, pad: Option<&Vec<u8>>| -> Vec<u8> {
        let (mut bytes, trace) = w.finish();
        if check_trace(&bytes, &trace).is_err() {
            selfcheck_ok = false;
        }
        if let Some(p) = pad {
            bytes.extend_from_slice(p);
        }
        bytes
    };
    let first = finish(hd, spec.padding.first());
    let toks: Vec<Vec<u8>> = parts.into_iter().enumerate().map(|(i, w)| finish(w, spec.padding.get(i + 1))).collect();
    assert!(first.len() < (1 << 19));
    let tag: u32 = ((spec.version as u32 & 7) << 1) | (1 << 4) | ((first.len() as u32) << 5); // key frame, shown
    let mut out = vec![tag as u8, (tag >> 8) as u8, (tag >> 16) as u8, 0x9d, 0x01, 0x2a];
    out.extend_from_slice(&(spec.width | ((spec.xscale as u16 & 3) << 14)).to_le_bytes());
    out.extend_from_slice(&(spec.height | ((spec.yscale as u16 & 3) << 14)).to_le_bytes());
    out.extend_from_slice(&first);
    for t in &toks[..nparts - 1] {
        out.extend_from_slice(&(t.len() as u32).to_le_bytes()[..3]);
    }
    let mut part_sizes = vec![first.len()];
    for t in &toks {
        out.extend_from_slice(t);
        part_sizes.push(t.len());
    }
    Written { payload: out, part_sizes, selfcheck_ok }
}

// ================================================================================================
// random frame programs
// ================================================================================================

#[derive(Clone, Debug)]
pub struct GenOpts {
    pub max_dim: u64,
    /// per cent of frames generated in the `Wide` coefficient domain (the rest is `Strict`)
    pub wide_pct: u64,
    /// per cent of frames allowed to have a segment filter level outside [0,63] *and* a non-zero delta on top
    /// (libwebp and the RFC reference decoder compute different levels there)
    pub lf_ambiguous_pct: u64,
    /// per cent of frames with the reserved colour-space bit set
    pub colorspace_pct: u64,
}
impl Default for GenOpts {
    fn default() -> Self {
        GenOpts { max_dim: 80, wide_pct: 20, lf_ambiguous_pct: 0, colorspace_pct: 0 }
    }
}

#[derive(Clone, Debug)]
pub struct Generated {
    pub spec: FrameSpec,
    pub domain: Domain,
    pub style: &'static str,
    pub payload: Vec<u8>,
    pub part_sizes: Vec<usize>,
    pub selfcheck_ok: bool,
}

fn rsv(rng: &mut Rng, present_pct: u64, max_mag: u64, small_bias: bool) -> Sv {
    if !rng.chance(present_pct, 100) {
        return None;
    }
    let mag = if small_bias && rng.chance(2, 3) { rng.below(max_mag.min(12) + 1) } else { rng.below(max_mag + 1) };
    Some((mag as u8, rng.chance(1, 2)))
}

fn rprob(rng: &mut Rng) -> u8 {
    match rng.below(20) {
        0 => *rng.pick(&[0u8, 1, 2, 254, 255]),
        1 => 128,
        _ => rng.byte(),
    }
}

fn rdim(rng: &mut Rng, max: u64) -> u16 {
    if rng.chance(15, 100) {
        let special = [1u64, 2, 3, 15, 16, 17, 31, 32, 33, 47, 48, 49, 63, 64, 65, 79, 80];
        let c: Vec<u64> = special.iter().copied().filter(|&x| x <= max).collect();
        *rng.pick(&c) as u16
    } else {
        rng.range(1, max) as u16
    }
}

/// magnitude of one level drawn by token class, at most `bound`
fn rlevel(rng: &mut Rng, style: u8, bound: i32) -> i16 {
    if bound <= 0 {
        return 0;
    }
    let class = match style {
        0 => *rng.pick(&[1u8, 1, 1, 1, 1, 2, 2, 3, 4, 5]),            // smooth
        1 => *rng.pick(&[1u8, 1, 1, 2, 2, 3, 4, 5, 5, 6, 6, 7, 8, 9]), // mixed
        _ => rng.range(1, 10) as u8,                                   // wild: every token class alike
    };
    let v: i32 = match class {
        1..=4 => class as i32,
        5 => rng.range(5, 6) as i32,
        6 => rng.range(7, 10) as i32,
        7 => rng.range(11, 18) as i32,
        8 => rng.range(19, 34) as i32,
        9 => rng.range(35, 66) as i32,
        _ => {
            if rng.chance(1, 4) {
                *rng.pick(&[67i32, 68, 2113, 2114])
            } else {
                rng.range(67, 2114) as i32
            }
        }
    };
    let v = v.min(bound);
    (if rng.chance(1, 2) { -v } else { v }) as i16
}

fn rblock(rng: &mut Rng, style: u8, first: usize, q: &[i32; 2], hi: i32) -> Block {
    let mut b = Block::EMPTY;
    let p_empty = [70u64, 40, 15][style as usize];
    if rng.chance(p_empty, 100) {
        return b;
    }
    if rng.chance(1, 100) {
        b.run_to_end = true; // nothing but explicit zero tokens
        return b;
    }
    let bound = |n: usize| hi / q[(n > 0) as usize];
    match rng.below(100) {
        0..=29 => {
            // first position only (the DC for blocks that carry one)
            b.levels[first] = rlevel(rng, style, bound(first));
        }
        30..=64 => {
            // a few low-frequency positions
            let k = rng.range(1, 3);
            for _ in 0..k {
                let n = first + rng.below(5.min(16 - first as u64)) as usize;
                b.levels[n] = rlevel(rng, style, bound(n));
            }
        }
        65..=89 => {
            for n in first..16 {
                if rng.chance(1, 3) {
                    b.levels[n] = rlevel(rng, style, bound(n));
                }
            }
        }
        _ => {
            for n in first..16 {
                b.levels[n] = rlevel(rng, style, bound(n));
            }
        }
    }
    if rng.chance(2, 100) {
        b.run_to_end = true;
    }
    b
}

fn rmb(rng: &mut Rng, spec: &FrameSpec, style: u8, dom: Domain) -> MbSpec {
    let mut mb = MbSpec::blank();
    mb.segment = rng.below(4) as u8;
    mb.skip = rng.chance(30, 100);
    mb.ymode = if rng.chance(35, 100) { B_PRED } else { rng.below(4) as u8 };
    if mb.ymode == B_PRED {
        let fav = rng.below(10) as u8;
        let uniform = rng.chance(1, 2);
        for m in mb.bmodes.iter_mut() {
            *m = if uniform || rng.chance(1, 3) { rng.below(10) as u8 } else { fav };
        }
    }
    mb.uvmode = rng.below(4) as u8;
    if spec.mb_skipped(&mb) {
        return mb;
    }
    if rng.chance(20, 100) {
        return mb; // coded, but every block is an immediate EOB
    }
    let dq = spec.dequant(spec.mb_segment(&mb));
    let hi = match dom {
        Domain::Strict => 2047,
        Domain::Wide => 32767,
    };
    // an occasional macroblock of a calmer / wilder kind than the frame
    let style = match rng.below(10) {
        0 => 0,
        1 => 2,
        _ => style,
    };
    let first = if mb.is_i4() { 0 } else { 1 };
    for i in 0..16 {
        mb.blocks[i] = rblock(rng, style, first, &dq.y1, hi);
    }
    for i in 16..24 {
        mb.blocks[i] = rblock(rng, style, 0, &dq.uv, hi);
    }
    if !mb.is_i4() {
        mb.blocks[24] = rblock(rng, style, 0, &dq.y2, hi);
    }
    // bring the macroblock into the domain: halve the levels until the (checked) reference arithmetic accepts it
    let mut tries = 0;
    while !mb_in_range(&mb, &dq, dom) {
        tries += 1;
        for b in mb.blocks.iter_mut() {
            for l in b.levels.iter_mut() {
                *l = if tries > 16 { 0 } else { *l / 2 };
            }
        }
    }
    mb
}

pub fn random_spec(rng: &mut Rng, opts: &GenOpts) -> (FrameSpec, Domain, &'static str) {
    let width = rdim(rng, opts.max_dim);
    let height = rdim(rng, opts.max_dim);
    random_spec_sized(rng, opts, width, height)
}

pub fn random_spec_sized(rng: &mut Rng, opts: &GenOpts, width: u16, height: u16) -> (FrameSpec, Domain, &'static str) {
    let dom = if rng.chance(opts.wide_pct, 100) { Domain::Wide } else { Domain::Strict };
    let style = match rng.below(100) {
        0..=34 => 0u8,
        35..=74 => 1,
        _ => 2,
    };
    let seg_enabled = rng.chance(1, 2);
    let seg_abs = rng.chance(1, 2);
    let mut spec = FrameSpec {
        width,
        height,
        xscale: if rng.chance(1, 10) { rng.below(4) as u8 } else { 0 },
        yscale: if rng.chance(1, 10) { rng.below(4) as u8 } else { 0 },
        version: if rng.chance(1, 10) { rng.below(4) as u8 } else { 0 },
        color_space: rng.chance(opts.colorspace_pct, 100),
        clamp_type: rng.chance(1, 4),
        seg_enabled,
        seg_update_map: seg_enabled && rng.chance(3, 4),
        seg_update_data: seg_enabled && rng.chance(3, 4),
        seg_abs,
        seg_quant: [None; 4],
        seg_lf: [None; 4],
        seg_probs: [None; 3],
        filter_simple: rng.chance(2, 5),
        filter_level: match rng.below(20) {
            0..=2 => 0,
            3 => 63,
            4 => rng.range(1, 14) as u8,
            _ => rng.range(1, 63) as u8,
        },
        sharpness: if rng.chance(2, 5) { 0 } else { rng.range(1, 7) as u8 },
        lf_delta_enabled: rng.chance(1, 2),
        lf_delta_update: rng.chance(4, 5),
        ref_delta: [None; 4],
        mode_delta: [None; 4],
        log2_parts: rng.below(4) as u8,
        yac_qi: match rng.below(20) {
            0..=4 => rng.below(21) as u8,
            5..=7 => rng.range(100, 127) as u8,
            _ => rng.below(128) as u8,
        },
        q_delta: [None; 5],
        refresh_entropy: rng.chance(1, 2),
        prob_updates: BTreeMap::new(),
        use_skip: rng.chance(3, 5),
        prob_skip: rprob(rng),
        mbs: vec![],
        padding: vec![],
    };
    if spec.seg_update_data {
        for s in 0..4 {
            // absolute: an index 0..127 (rarely negative, which clips to 0); delta: anything in [-127, 127]
            spec.seg_quant[s] = if seg_abs {
                if rng.chance(4, 5) { Some((rng.below(128) as u8, rng.chance(1, 20))) } else { None }
            } else {
                rsv(rng, 80, 127, true)
            };
            spec.seg_lf[s] = if seg_abs {
                if rng.chance(4, 5) { Some((rng.below(64) as u8, rng.chance(1, 20))) } else { None }
            } else {
                rsv(rng, 80, 63, true)
            };
        }
    }
    if spec.seg_update_map {
        for s in 0..3 {
            spec.seg_probs[s] = if rng.chance(7, 10) { Some(rprob(rng)) } else { None };
        }
    }
    if spec.lf_delta_enabled && spec.lf_delta_update {
        for i in 0..4 {
            spec.ref_delta[i] = rsv(rng, 60, 63, true);
            spec.mode_delta[i] = rsv(rng, 60, 63, true);
        }
    }
    for i in 0..5 {
        spec.q_delta[i] = rsv(rng, 40, 15, false);
    }
    let upd_rate = match rng.below(10) {
        0..=3 => 0,
        4..=6 => 2,
        7..=8 => 20,
        _ => 100,
    };
    if upd_rate > 0 {
        for t in 0..4 {
            for b in 0..8 {
                for c in 0..3 {
                    for n in 0..11 {
                        if rng.chance(upd_rate, 100) {
                            spec.prob_updates.insert((t, b, c, n), rprob(rng));
                        }
                    }
                }
            }
        }
    }
    // loop-filter level formulas of libwebp and of the RFC reference decoder must agree unless asked otherwise
    let want_ambiguous = rng.chance(opts.lf_ambiguous_pct, 100);
    if want_ambiguous {
        // segment levels that leave [0, 63] before a delta of the opposite sign is added
        spec.seg_enabled = true;
        spec.seg_update_data = true;
        spec.filter_level = rng.range(1, 63) as u8;
        spec.lf_delta_enabled = true;
        spec.lf_delta_update = true;
        let up = rng.chance(1, 2);
        for s in 0..4 {
            let base = if spec.seg_abs { 0 } else { spec.filter_level as i32 };
            let target = if up { 64 + rng.below(40) as i32 } else { -1 - rng.below(40) as i32 };
            let v = (target - base).clamp(-63, 63);
            spec.seg_lf[s] = Some((v.unsigned_abs() as u8, v < 0));
        }
        spec.ref_delta[0] = Some((rng.range(1, 40) as u8, up));
        spec.mode_delta[0] = rsv(rng, 50, 20, false);
    }
    let n = spec.mbw() * spec.mbh();
    for _ in 0..n {
        let mb = rmb(rng, &spec, style, dom);
        spec.mbs.push(mb);
    }
    if !want_ambiguous {
        let mut guard = 0;
        while spec.lf_clamp_ambiguous() {
            guard += 1;
            if guard > 8 {
                spec.ref_delta[0] = None;
                spec.mode_delta[0] = None;
                break;
            }
            for s in 0..4 {
                if let Some((m, neg)) = spec.seg_lf[s] {
                    // pull the segment level into the range in which both formulas agree
                    let base = if spec.seg_abs_eff() { 0 } else { spec.filter_level as i32 };
                    let v = (base + if neg { -(m as i32) } else { m as i32 }).clamp(0, 63) - base;
                    spec.seg_lf[s] = Some((v.unsigned_abs() as u8, v < 0));
                }
            }
            if spec.lf_clamp_ambiguous() {
                spec.ref_delta[0] = rsv(rng, 60, 8, false);
                spec.mode_delta[0] = rsv(rng, 60, 8, false);
            }
        }
    }
    if rng.chance(1, 10) {
        for _ in 0..=spec.num_parts() {
            let k = rng.below(4) as usize;
            spec.padding.push(rng.bytes(k));
        }
    }
    (spec, dom, ["smooth", "mixed", "wild"][style as usize])
}

pub fn generate(rng: &mut Rng, opts: &GenOpts) -> Generated {
    let (spec, domain, style) = random_spec(rng, opts);
    let w = write_frame(&spec);
    Generated { spec, domain, style, payload: w.payload, part_sizes: w.part_sizes, selfcheck_ok: w.selfcheck_ok }
}

// ================================================================================================
// intent self-test: tiny frames whose reconstruction is known in closed form
// ================================================================================================

/// a blank 16x16 frame: no segmentation, no filter, quantiser index 0, every block empty
pub fn blank_spec(width: u16, height: u16) -> FrameSpec {
    let mut s = FrameSpec {
        width,
        height,
        xscale: 0,
        yscale: 0,
        version: 0,
        color_space: false,
        clamp_type: false,
        seg_enabled: false,
        seg_update_map: false,
        seg_update_data: false,
        seg_abs: false,
        seg_quant: [None; 4],
        seg_lf: [None; 4],
        seg_probs: [None; 3],
        filter_simple: false,
        filter_level: 0,
        sharpness: 0,
        lf_delta_enabled: false,
        lf_delta_update: false,
        ref_delta: [None; 4],
        mode_delta: [None; 4],
        log2_parts: 0,
        yac_qi: 0,
        q_delta: [None; 5],
        refresh_entropy: false,
        prob_updates: BTreeMap::new(),
        use_skip: false,
        prob_skip: 0,
        mbs: vec![],
        padding: vec![],
    };
    s.mbs = vec![MbSpec::blank(); s.mbw() * s.mbh()];
    s
}

/// Frames whose planes follow from RFC 6386 by hand (127 above / 129 left borders, DC-only transforms).
/// `decode` returns (Y, U, V) of a payload (libwebp in the harness).  Returns the list of failed expectations; it is
/// empty when the writer puts every syntax element where the format expects it.
pub fn intent_selftest(decode: &dyn Fn(&[u8]) -> Option<(Vec<u8>, Vec<u8>, Vec<u8>)>) -> Vec<String> {
    let mut bad = vec![];
    let mut expect = |name: &str, spec: &FrameSpec, y: u8, u: u8, v: u8| {
        let w = write_frame(spec);
        match decode(&w.payload) {
            None => bad.push(format!("{name}: rejected")),
            Some((py, pu, pv)) => {
                if py.iter().any(|&s| s != y) || pu.iter().any(|&s| s != u) || pv.iter().any(|&s| s != v) {
                    bad.push(format!("{name}: expected Y={y} U={u} V={v}, got Y[0]={} U[0]={} V[0]={}", py[0], pu[0], pv[0]));
                }
            }
        }
    };
    // prediction modes of the top-left macroblock: DC without neighbours = 128, V copies the 127 row, H copies the
    // 129 column, TM = 129 + 127 - 127
    for (ym, ye) in [(DC_PRED, 128u8), (TM_PRED, 129), (V_PRED, 127), (H_PRED, 129)] {
        for (um, ue) in [(0u8, 128u8), (1, 129), (2, 127), (3, 129)] {
            let mut s = blank_spec(16, 16);
            s.mbs[0].ymode = ym;
            s.mbs[0].uvmode = um;
            expect(&format!("modes y={} uv={}", YMODE_NAMES[ym as usize], UVMODE_NAMES[um as usize]), &s, ye, ue, ue);
        }
    }
    // the same with every optional header element present (they must not shift the mode bits)
    {
        let mut s = blank_spec(16, 16);
        s.seg_enabled = true;
        s.seg_update_map = true;
        s.seg_update_data = true;
        s.seg_abs = true;
        s.seg_quant = [Some((10, false)), Some((20, false)), None, Some((127, true))];
        s.seg_lf = [Some((3, false)), None, Some((63, true)), Some((1, false))];
        s.seg_probs = [Some(7), None, Some(200)];
        s.lf_delta_enabled = true;
        s.lf_delta_update = true;
        s.ref_delta = [Some((1, true)), None, Some((63, false)), None];
        s.mode_delta = [None, Some((5, true)), None, Some((6, false))];
        s.log2_parts = 3;
        s.q_delta = [Some((15, true)), None, Some((1, false)), Some((15, false)), None];
        s.refresh_entropy = true;
        s.prob_updates.insert((0, 0, 0, 0), 1);
        s.prob_updates.insert((3, 7, 2, 10), 255);
        s.use_skip = true;
        s.prob_skip = 3;
        s.xscale = 3;
        s.version = 3;
        s.clamp_type = true;
        s.mbs[0].segment = 3;
        s.mbs[0].skip = true;
        s.mbs[0].ymode = V_PRED;
        s.mbs[0].uvmode = 3;
        expect("full header, skipped V/H macroblock", &s, 127, 129, 129);
    }
    // DC-only residuals: q index 0 -> y2dc = 8, uvdc = 4.  Y2 level 8 -> 64 -> WHT dc0 = (64+3)>>3 = 8 per block ->
    // IDCT (8+4)>>3 = +1.  U level 6 -> 24 -> (24+4)>>3 = +3 on each of its four blocks; V level -4 -> -16 -> -2.
    {
        let mut s = blank_spec(16, 16);
        s.mbs[0].blocks[24].levels[0] = 8;
        for b in 16..20 {
            s.mbs[0].blocks[b].levels[0] = 6;
        }
        for b in 20..24 {
            s.mbs[0].blocks[b].levels[0] = -4;
        }
        expect("DC residuals at q=0", &s, 129, 131, 126);
        // the same through segment 2 with an absolute quantiser index 127 (dc 157): y2dc = 314, uvdc = 132
        s.seg_enabled = true;
        s.seg_update_map = true;
        s.seg_update_data = true;
        s.seg_abs = true;
        s.seg_quant = [None, None, Some((127, false)), None];
        s.mbs[0].segment = 2;
        s.mbs[0].blocks[24].levels[0] = 1; // 314 -> (314+3)>>3 = 39 -> (39+4)>>3 = 5
        for b in 16..20 {
            s.mbs[0].blocks[b].levels[0] = 1; // 132 -> (132+4)>>3 = 17
        }
        for b in 20..24 {
            s.mbs[0].blocks[b].levels[0] = -1; // -132 -> (-132+4)>>3 = -16
        }
        expect("DC residuals in segment 2 at q=127", &s, 133, 145, 112);
    }
    // B_PRED with B_DC_PRED everywhere and a luma DC level 2 on every block (y1dc = 4 at q=0: 8 -> (8+4)>>3 = +1):
    // the first block predicts (4*127 + 4*129 + 4) >> 3 = 128 -> 129; a block with 129 to the left and 127 above
    // predicts 128 again, one with 129 above and 129 to the left 129 -> 130, ... not constant, so only acceptance and
    // the top-left sample are checked
    {
        let mut s = blank_spec(16, 16);
        s.mbs[0].ymode = B_PRED;
        for b in 0..16 {
            s.mbs[0].blocks[b].levels[0] = 2;
        }
        let w = write_frame(&s);
        match decode(&w.payload) {
            Some((y, _, _)) if y[0] == 129 => {}
            Some((y, _, _)) => bad.push(format!("B_DC block: expected Y(0,0)=129, got {}", y[0])),
            None => bad.push("B_DC block: rejected".to_string()),
        }
    }
    bad
}

// ================================================================================================
// feature accounting
// ================================================================================================

#[derive(Default, Clone)]
pub struct Features {
    pub c: BTreeMap<String, u64>,
}
impl Features {
    pub fn inc(&mut self, k: &str) {
        *self.c.entry(k.to_string()).or_insert(0) += 1;
    }
    pub fn add(&mut self, k: &str, n: u64) {
        *self.c.entry(k.to_string()).or_insert(0) += n;
    }
    pub fn max(&mut self, k: &str, n: u64) {
        let e = self.c.entry(k.to_string()).or_insert(0);
        *e = (*e).max(n);
    }
    pub fn get(&self, k: &str) -> u64 {
        *self.c.get(k).unwrap_or(&0)
    }
    pub fn json(&self) -> String {
        let items: Vec<String> = self.c.iter().map(|(k, v)| format!("{}: {}", crate::util::jstr(k), v)).collect();
        format!("{{{}}}", items.join(", "))
    }

    /// account one generated frame
    pub fn frame(&mut self, g: &Generated) {
        let s = &g.spec;
        self.inc("frames");
        self.inc(&format!("domain.{:?}", g.domain));
        self.inc(&format!("style.{}", g.style));
        self.inc(&format!("width_mod16.{:02}", s.width % 16));
        self.inc(&format!("height_mod16.{:02}", s.height % 16));
        self.inc(&format!("mb_cols.{}", s.mbw()));
        self.inc(&format!("mb_rows.{}", s.mbh()));
        self.add("macroblocks", s.mbs.len() as u64);
        self.add("payload_bytes", g.payload.len() as u64);
        if s.xscale != 0 || s.yscale != 0 {
            self.inc("scale_bits_nonzero");
        }
        if s.version != 0 {
            self.inc("version_nonzero");
        }
        if s.color_space {
            self.inc("color_space_reserved");
        }
        if s.clamp_type {
            self.inc("clamp_type_1");
        }
        if s.seg_enabled {
            self.inc("segmentation.on");
            if s.seg_update_map {
                self.inc("segmentation.update_map");
                if s.seg_probs.iter().any(|p| p.is_some()) {
                    self.inc("segmentation.tree_probs_updated");
                }
            }
            if s.seg_update_data {
                self.inc(if s.seg_abs { "segmentation.data_absolute" } else { "segmentation.data_delta" });
            } else {
                self.inc("segmentation.no_data_update");
            }
        } else {
            self.inc("segmentation.off");
        }
        self.inc(if s.filter_simple { "filter.simple" } else { "filter.normal" });
        self.inc(&format!("filter.level.{}", match s.filter_level { 0 => "0", 1..=14 => "1-14", 15..=39 => "15-39", _ => "40-63" }));
        self.inc(&format!("filter.sharpness.{}", s.sharpness));
        if s.filter_level == 0 && s.seg_enabled && (0..4).any(|i| s.filter_levels(i, false).0 > 0 || s.filter_levels(i, true).0 > 0) {
            self.inc("filter.frame_level_0_with_positive_segment_level");
        }
        if s.lf_delta_enabled {
            self.inc("filter.delta_enabled");
            if s.lf_delta_update {
                self.inc("filter.delta_update");
                if sv(s.ref_delta[0]) != 0 {
                    self.inc("filter.ref_delta0_nonzero");
                }
                if sv(s.mode_delta[0]) != 0 {
                    self.inc("filter.mode_delta0_nonzero");
                }
            }
        }
        if s.lf_clamp_ambiguous() {
            self.inc("filter.level_formula_ambiguous");
        }
        self.inc(&format!("partitions.{}", s.num_parts()));
        self.inc(&format!("quant.yac_qi.{}", match s.yac_qi { 0..=20 => "0-20", 21..=99 => "21-99", _ => "100-127" }));
        if s.q_delta.iter().any(|d| sv(*d) != 0) {
            self.inc("quant.deltas_nonzero");
        }
        self.inc(&format!("prob_updates.{}", match s.prob_updates.len() { 0 => "none", 1..=99 => "1-99", 100..=999 => "100-999", _ => "1000+" }));
        self.add("prob_updates.total", s.prob_updates.len() as u64);
        self.inc(if s.use_skip { "mb_no_coeff_skip.on" } else { "mb_no_coeff_skip.off" });
        if !s.padding.is_empty() {
            self.inc("partition_padding");
        }
        for mb in &s.mbs {
            self.inc(&format!("mb.ymode.{}", YMODE_NAMES[mb.ymode as usize]));
            self.inc(&format!("mb.uvmode.{}", UVMODE_NAMES[mb.uvmode as usize]));
            if s.seg_enabled && s.seg_update_map {
                self.inc(&format!("mb.segment.{}", mb.segment));
            }
            if mb.is_i4() {
                for &m in &mb.bmodes {
                    self.inc(&format!("mb.bmode.{}", BMODE_NAMES[m as usize]));
                }
            }
            if s.mb_skipped(mb) {
                self.inc("mb.skipped");
                continue;
            }
            let first = if mb.is_i4() { 0 } else { 1 };
            let nblocks = if mb.is_i4() { 24 } else { 25 };
            let mut any = false;
            for i in 0..nblocks {
                let b = &mb.blocks[i];
                let f = if i < 16 { first } else { 0 };
                self.inc("block.total");
                if !b.coded(f) {
                    self.inc("block.eob_only");
                    continue;
                }
                any = true;
                if b.run_to_end {
                    self.inc("block.zero_run_to_end");
                }
                if b.last(f) == 15 {
                    self.inc("block.last_position_coded");
                }
                for n in f..16 {
                    let v = (b.levels[n] as i32).abs();
                    let k = match v {
                        0 => continue,
                        1 => "token.ONE",
                        2 => "token.TWO",
                        3 => "token.THREE",
                        4 => "token.FOUR",
                        5..=6 => "token.CAT1",
                        7..=10 => "token.CAT2",
                        11..=18 => "token.CAT3",
                        19..=34 => "token.CAT4",
                        35..=66 => "token.CAT5",
                        _ => "token.CAT6",
                    };
                    self.inc(k);
                    self.max("token.max_level", v as u64);
                }
            }
            if !any {
                self.inc("mb.coded_but_all_eob");
            }
        }
    }
}

// Tables below are generated mechanically from libwebp 1.3.1 (src/dec/tree_dec.c, src/dec/quant_dec.c);
// the generator is therefore independent of the tables in image-webp.
pub const COEFFS_PROBA0: [[[[u8; 11]; 3]; 8]; 4] = [
 [
  [
   [128, 128, 128, 128, 128, 128, 128, 128, 128, 128, 128],
   [128, 128, 128, 128, 128, 128, 128, 128, 128, 128, 128],
   [128, 128, 128, 128, 128, 128, 128, 128, 128, 128, 128],
  ],
  [
   [253, 136, 254, 255, 228, 219, 128, 128, 128, 128, 128],
   [189, 129, 242, 255, 227, 213, 255, 219, 128, 128, 128],
   [106, 126, 227, 252, 214, 209, 255, 255, 128, 128, 128],
  ],
  [
   [1, 98, 248, 255, 236, 226, 255, 255, 128, 128, 128],
   [181, 133, 238, 254, 221, 234, 255, 154, 128, 128, 128],
   [78, 134, 202, 247, 198, 180, 255, 219, 128, 128, 128],
  ],
  [
   [1, 185, 249, 255, 243, 255, 128, 128, 128, 128, 128],
   [184, 150, 247, 255, 236, 224, 128, 128, 128, 128, 128],
   [77, 110, 216, 255, 236, 230, 128, 128, 128, 128, 128],
  ],
  [
   [1, 101, 251, 255, 241, 255, 128, 128, 128, 128, 128],
   [170, 139, 241, 252, 236, 209, 255, 255, 128, 128, 128],
   [37, 116, 196, 243, 228, 255, 255, 255, 128, 128, 128],
  ],
  [
   [1, 204, 254, 255, 245, 255, 128, 128, 128, 128, 128],
   [207, 160, 250, 255, 238, 128, 128, 128, 128, 128, 128],
   [102, 103, 231, 255, 211, 171, 128, 128, 128, 128, 128],
  ],
  [
   [1, 152, 252, 255, 240, 255, 128, 128, 128, 128, 128],
   [177, 135, 243, 255, 234, 225, 128, 128, 128, 128, 128],
   [80, 129, 211, 255, 194, 224, 128, 128, 128, 128, 128],
  ],
  [
   [1, 1, 255, 128, 128, 128, 128, 128, 128, 128, 128],
   [246, 1, 255, 128, 128, 128, 128, 128, 128, 128, 128],
   [255, 128, 128, 128, 128, 128, 128, 128, 128, 128, 128],
  ],
 ],
 [
  [
   [198, 35, 237, 223, 193, 187, 162, 160, 145, 155, 62],
   [131, 45, 198, 221, 172, 176, 220, 157, 252, 221, 1],
   [68, 47, 146, 208, 149, 167, 221, 162, 255, 223, 128],
  ],
  [
   [1, 149, 241, 255, 221, 224, 255, 255, 128, 128, 128],
   [184, 141, 234, 253, 222, 220, 255, 199, 128, 128, 128],
   [81, 99, 181, 242, 176, 190, 249, 202, 255, 255, 128],
  ],
  [
   [1, 129, 232, 253, 214, 197, 242, 196, 255, 255, 128],
   [99, 121, 210, 250, 201, 198, 255, 202, 128, 128, 128],
   [23, 91, 163, 242, 170, 187, 247, 210, 255, 255, 128],
  ],
  [
   [1, 200, 246, 255, 234, 255, 128, 128, 128, 128, 128],
   [109, 178, 241, 255, 231, 245, 255, 255, 128, 128, 128],
   [44, 130, 201, 253, 205, 192, 255, 255, 128, 128, 128],
  ],
  [
   [1, 132, 239, 251, 219, 209, 255, 165, 128, 128, 128],
   [94, 136, 225, 251, 218, 190, 255, 255, 128, 128, 128],
   [22, 100, 174, 245, 186, 161, 255, 199, 128, 128, 128],
  ],
  [
   [1, 182, 249, 255, 232, 235, 128, 128, 128, 128, 128],
   [124, 143, 241, 255, 227, 234, 128, 128, 128, 128, 128],
   [35, 77, 181, 251, 193, 211, 255, 205, 128, 128, 128],
  ],
  [
   [1, 157, 247, 255, 236, 231, 255, 255, 128, 128, 128],
   [121, 141, 235, 255, 225, 227, 255, 255, 128, 128, 128],
   [45, 99, 188, 251, 195, 217, 255, 224, 128, 128, 128],
  ],
  [
   [1, 1, 251, 255, 213, 255, 128, 128, 128, 128, 128],
   [203, 1, 248, 255, 255, 128, 128, 128, 128, 128, 128],
   [137, 1, 177, 255, 224, 255, 128, 128, 128, 128, 128],
  ],
 ],
 [
  [
   [253, 9, 248, 251, 207, 208, 255, 192, 128, 128, 128],
   [175, 13, 224, 243, 193, 185, 249, 198, 255, 255, 128],
   [73, 17, 171, 221, 161, 179, 236, 167, 255, 234, 128],
  ],
  [
   [1, 95, 247, 253, 212, 183, 255, 255, 128, 128, 128],
   [239, 90, 244, 250, 211, 209, 255, 255, 128, 128, 128],
   [155, 77, 195, 248, 188, 195, 255, 255, 128, 128, 128],
  ],
  [
   [1, 24, 239, 251, 218, 219, 255, 205, 128, 128, 128],
   [201, 51, 219, 255, 196, 186, 128, 128, 128, 128, 128],
   [69, 46, 190, 239, 201, 218, 255, 228, 128, 128, 128],
  ],
  [
   [1, 191, 251, 255, 255, 128, 128, 128, 128, 128, 128],
   [223, 165, 249, 255, 213, 255, 128, 128, 128, 128, 128],
   [141, 124, 248, 255, 255, 128, 128, 128, 128, 128, 128],
  ],
  [
   [1, 16, 248, 255, 255, 128, 128, 128, 128, 128, 128],
   [190, 36, 230, 255, 236, 255, 128, 128, 128, 128, 128],
   [149, 1, 255, 128, 128, 128, 128, 128, 128, 128, 128],
  ],
  [
   [1, 226, 255, 128, 128, 128, 128, 128, 128, 128, 128],
   [247, 192, 255, 128, 128, 128, 128, 128, 128, 128, 128],
   [240, 128, 255, 128, 128, 128, 128, 128, 128, 128, 128],
  ],
  [
   [1, 134, 252, 255, 255, 128, 128, 128, 128, 128, 128],
   [213, 62, 250, 255, 255, 128, 128, 128, 128, 128, 128],
   [55, 93, 255, 128, 128, 128, 128, 128, 128, 128, 128],
  ],
  [
   [128, 128, 128, 128, 128, 128, 128, 128, 128, 128, 128],
   [128, 128, 128, 128, 128, 128, 128, 128, 128, 128, 128],
   [128, 128, 128, 128, 128, 128, 128, 128, 128, 128, 128],
  ],
 ],
 [
  [
   [202, 24, 213, 235, 186, 191, 220, 160, 240, 175, 255],
   [126, 38, 182, 232, 169, 184, 228, 174, 255, 187, 128],
   [61, 46, 138, 219, 151, 178, 240, 170, 255, 216, 128],
  ],
  [
   [1, 112, 230, 250, 199, 191, 247, 159, 255, 255, 128],
   [166, 109, 228, 252, 211, 215, 255, 174, 128, 128, 128],
   [39, 77, 162, 232, 172, 180, 245, 178, 255, 255, 128],
  ],
  [
   [1, 52, 220, 246, 198, 199, 249, 220, 255, 255, 128],
   [124, 74, 191, 243, 183, 193, 250, 221, 255, 255, 128],
   [24, 71, 130, 219, 154, 170, 243, 182, 255, 255, 128],
  ],
  [
   [1, 182, 225, 249, 219, 240, 255, 224, 128, 128, 128],
   [149, 150, 226, 252, 216, 205, 255, 171, 128, 128, 128],
   [28, 108, 170, 242, 183, 194, 254, 223, 255, 255, 128],
  ],
  [
   [1, 81, 230, 252, 204, 203, 255, 192, 128, 128, 128],
   [123, 102, 209, 247, 188, 196, 255, 233, 128, 128, 128],
   [20, 95, 153, 243, 164, 173, 255, 203, 128, 128, 128],
  ],
  [
   [1, 222, 248, 255, 216, 213, 128, 128, 128, 128, 128],
   [168, 175, 246, 252, 235, 205, 255, 255, 128, 128, 128],
   [47, 116, 215, 255, 211, 212, 255, 255, 128, 128, 128],
  ],
  [
   [1, 121, 236, 253, 212, 214, 255, 255, 128, 128, 128],
   [141, 84, 213, 252, 201, 202, 255, 219, 128, 128, 128],
   [42, 80, 160, 240, 162, 185, 255, 205, 128, 128, 128],
  ],
  [
   [1, 1, 255, 128, 128, 128, 128, 128, 128, 128, 128],
   [244, 1, 255, 128, 128, 128, 128, 128, 128, 128, 128],
   [238, 1, 255, 128, 128, 128, 128, 128, 128, 128, 128],
  ],
 ],
];
pub const COEFFS_UPDATE_PROBA: [[[[u8; 11]; 3]; 8]; 4] = [
 [
  [
   [255, 255, 255, 255, 255, 255, 255, 255, 255, 255, 255],
   [255, 255, 255, 255, 255, 255, 255, 255, 255, 255, 255],
   [255, 255, 255, 255, 255, 255, 255, 255, 255, 255, 255],
  ],
  [
   [176, 246, 255, 255, 255, 255, 255, 255, 255, 255, 255],
   [223, 241, 252, 255, 255, 255, 255, 255, 255, 255, 255],
   [249, 253, 253, 255, 255, 255, 255, 255, 255, 255, 255],
  ],
  [
   [255, 244, 252, 255, 255, 255, 255, 255, 255, 255, 255],
   [234, 254, 254, 255, 255, 255, 255, 255, 255, 255, 255],
   [253, 255, 255, 255, 255, 255, 255, 255, 255, 255, 255],
  ],
  [
   [255, 246, 254, 255, 255, 255, 255, 255, 255, 255, 255],
   [239, 253, 254, 255, 255, 255, 255, 255, 255, 255, 255],
   [254, 255, 254, 255, 255, 255, 255, 255, 255, 255, 255],
  ],
  [
   [255, 248, 254, 255, 255, 255, 255, 255, 255, 255, 255],
   [251, 255, 254, 255, 255, 255, 255, 255, 255, 255, 255],
   [255, 255, 255, 255, 255, 255, 255, 255, 255, 255, 255],
  ],
  [
   [255, 253, 254, 255, 255, 255, 255, 255, 255, 255, 255],
   [251, 254, 254, 255, 255, 255, 255, 255, 255, 255, 255],
   [254, 255, 254, 255, 255, 255, 255, 255, 255, 255, 255],
  ],
  [
   [255, 254, 253, 255, 254, 255, 255, 255, 255, 255, 255],
   [250, 255, 254, 255, 254, 255, 255, 255, 255, 255, 255],
   [254, 255, 255, 255, 255, 255, 255, 255, 255, 255, 255],
  ],
  [
   [255, 255, 255, 255, 255, 255, 255, 255, 255, 255, 255],
   [255, 255, 255, 255, 255, 255, 255, 255, 255, 255, 255],
   [255, 255, 255, 255, 255, 255, 255, 255, 255, 255, 255],
  ],
 ],
 [
  [
   [217, 255, 255, 255, 255, 255, 255, 255, 255, 255, 255],
   [225, 252, 241, 253, 255, 255, 254, 255, 255, 255, 255],
   [234, 250, 241, 250, 253, 255, 253, 254, 255, 255, 255],
  ],
  [
   [255, 254, 255, 255, 255, 255, 255, 255, 255, 255, 255],
   [223, 254, 254, 255, 255, 255, 255, 255, 255, 255, 255],
   [238, 253, 254, 254, 255, 255, 255, 255, 255, 255, 255],
  ],
  [
   [255, 248, 254, 255, 255, 255, 255, 255, 255, 255, 255],
   [249, 254, 255, 255, 255, 255, 255, 255, 255, 255, 255],
   [255, 255, 255, 255, 255, 255, 255, 255, 255, 255, 255],
  ],
  [
   [255, 253, 255, 255, 255, 255, 255, 255, 255, 255, 255],
   [247, 254, 255, 255, 255, 255, 255, 255, 255, 255, 255],
   [255, 255, 255, 255, 255, 255, 255, 255, 255, 255, 255],
  ],
  [
   [255, 253, 254, 255, 255, 255, 255, 255, 255, 255, 255],
   [252, 255, 255, 255, 255, 255, 255, 255, 255, 255, 255],
   [255, 255, 255, 255, 255, 255, 255, 255, 255, 255, 255],
  ],
  [
   [255, 254, 254, 255, 255, 255, 255, 255, 255, 255, 255],
   [253, 255, 255, 255, 255, 255, 255, 255, 255, 255, 255],
   [255, 255, 255, 255, 255, 255, 255, 255, 255, 255, 255],
  ],
  [
   [255, 254, 253, 255, 255, 255, 255, 255, 255, 255, 255],
   [250, 255, 255, 255, 255, 255, 255, 255, 255, 255, 255],
   [254, 255, 255, 255, 255, 255, 255, 255, 255, 255, 255],
  ],
  [
   [255, 255, 255, 255, 255, 255, 255, 255, 255, 255, 255],
   [255, 255, 255, 255, 255, 255, 255, 255, 255, 255, 255],
   [255, 255, 255, 255, 255, 255, 255, 255, 255, 255, 255],
  ],
 ],
 [
  [
   [186, 251, 250, 255, 255, 255, 255, 255, 255, 255, 255],
   [234, 251, 244, 254, 255, 255, 255, 255, 255, 255, 255],
   [251, 251, 243, 253, 254, 255, 254, 255, 255, 255, 255],
  ],
  [
   [255, 253, 254, 255, 255, 255, 255, 255, 255, 255, 255],
   [236, 253, 254, 255, 255, 255, 255, 255, 255, 255, 255],
   [251, 253, 253, 254, 254, 255, 255, 255, 255, 255, 255],
  ],
  [
   [255, 254, 254, 255, 255, 255, 255, 255, 255, 255, 255],
   [254, 254, 254, 255, 255, 255, 255, 255, 255, 255, 255],
   [255, 255, 255, 255, 255, 255, 255, 255, 255, 255, 255],
  ],
  [
   [255, 254, 255, 255, 255, 255, 255, 255, 255, 255, 255],
   [254, 254, 255, 255, 255, 255, 255, 255, 255, 255, 255],
   [254, 255, 255, 255, 255, 255, 255, 255, 255, 255, 255],
  ],
  [
   [255, 255, 255, 255, 255, 255, 255, 255, 255, 255, 255],
   [254, 255, 255, 255, 255, 255, 255, 255, 255, 255, 255],
   [255, 255, 255, 255, 255, 255, 255, 255, 255, 255, 255],
  ],
  [
   [255, 255, 255, 255, 255, 255, 255, 255, 255, 255, 255],
   [255, 255, 255, 255, 255, 255, 255, 255, 255, 255, 255],
   [255, 255, 255, 255, 255, 255, 255, 255, 255, 255, 255],
  ],
  [
   [255, 255, 255, 255, 255, 255, 255, 255, 255, 255, 255],
   [255, 255, 255, 255, 255, 255, 255, 255, 255, 255, 255],
   [255, 255, 255, 255, 255, 255, 255, 255, 255, 255, 255],
  ],
  [
   [255, 255, 255, 255, 255, 255, 255, 255, 255, 255, 255],
   [255, 255, 255, 255, 255, 255, 255, 255, 255, 255, 255],
   [255, 255, 255, 255, 255, 255, 255, 255, 255, 255, 255],
  ],
 ],
 [
  [
   [248, 255, 255, 255, 255, 255, 255, 255, 255, 255, 255],
   [250, 254, 252, 254, 255, 255, 255, 255, 255, 255, 255],
   [248, 254, 249, 253, 255, 255, 255, 255, 255, 255, 255],
  ],
  [
   [255, 253, 253, 255, 255, 255, 255, 255, 255, 255, 255],
   [246, 253, 253, 255, 255, 255, 255, 255, 255, 255, 255],
   [252, 254, 251, 254, 254, 255, 255, 255, 255, 255, 255],
  ],
  [
   [255, 254, 252, 255, 255, 255, 255, 255, 255, 255, 255],
   [248, 254, 253, 255, 255, 255, 255, 255, 255, 255, 255],
   [253, 255, 254, 254, 255, 255, 255, 255, 255, 255, 255],
  ],
  [
   [255, 251, 254, 255, 255, 255, 255, 255, 255, 255, 255],
   [245, 251, 254, 255, 255, 255, 255, 255, 255, 255, 255],
   [253, 253, 254, 255, 255, 255, 255, 255, 255, 255, 255],
  ],
  [
   [255, 251, 253, 255, 255, 255, 255, 255, 255, 255, 255],
   [252, 253, 254, 255, 255, 255, 255, 255, 255, 255, 255],
   [255, 254, 255, 255, 255, 255, 255, 255, 255, 255, 255],
  ],
  [
   [255, 252, 255, 255, 255, 255, 255, 255, 255, 255, 255],
   [249, 255, 254, 255, 255, 255, 255, 255, 255, 255, 255],
   [255, 255, 254, 255, 255, 255, 255, 255, 255, 255, 255],
  ],
  [
   [255, 255, 253, 255, 255, 255, 255, 255, 255, 255, 255],
   [250, 255, 255, 255, 255, 255, 255, 255, 255, 255, 255],
   [255, 255, 255, 255, 255, 255, 255, 255, 255, 255, 255],
  ],
  [
   [255, 255, 255, 255, 255, 255, 255, 255, 255, 255, 255],
   [254, 255, 255, 255, 255, 255, 255, 255, 255, 255, 255],
   [255, 255, 255, 255, 255, 255, 255, 255, 255, 255, 255],
  ],
 ],
];
/// indexed [top][left][node]; libwebp numbering of the sub-block modes (DC TM VE HE RD VR LD VL HD HU)
pub const BMODES_PROBA: [[[u8; 9]; 10]; 10] = [
 [
  [231, 120, 48, 89, 115, 113, 120, 152, 112],
  [152, 179, 64, 126, 170, 118, 46, 70, 95],
  [175, 69, 143, 80, 85, 82, 72, 155, 103],
  [56, 58, 10, 171, 218, 189, 17, 13, 152],
  [114, 26, 17, 163, 44, 195, 21, 10, 173],
  [121, 24, 80, 195, 26, 62, 44, 64, 85],
  [144, 71, 10, 38, 171, 213, 144, 34, 26],
  [170, 46, 55, 19, 136, 160, 33, 206, 71],
  [63, 20, 8, 114, 114, 208, 12, 9, 226],
  [81, 40, 11, 96, 182, 84, 29, 16, 36],
 ],
 [
  [134, 183, 89, 137, 98, 101, 106, 165, 148],
  [72, 187, 100, 130, 157, 111, 32, 75, 80],
  [66, 102, 167, 99, 74, 62, 40, 234, 128],
  [41, 53, 9, 178, 241, 141, 26, 8, 107],
  [74, 43, 26, 146, 73, 166, 49, 23, 157],
  [65, 38, 105, 160, 51, 52, 31, 115, 128],
  [104, 79, 12, 27, 217, 255, 87, 17, 7],
  [87, 68, 71, 44, 114, 51, 15, 186, 23],
  [47, 41, 14, 110, 182, 183, 21, 17, 194],
  [66, 45, 25, 102, 197, 189, 23, 18, 22],
 ],
 [
  [88, 88, 147, 150, 42, 46, 45, 196, 205],
  [43, 97, 183, 117, 85, 38, 35, 179, 61],
  [39, 53, 200, 87, 26, 21, 43, 232, 171],
  [56, 34, 51, 104, 114, 102, 29, 93, 77],
  [39, 28, 85, 171, 58, 165, 90, 98, 64],
  [34, 22, 116, 206, 23, 34, 43, 166, 73],
  [107, 54, 32, 26, 51, 1, 81, 43, 31],
  [68, 25, 106, 22, 64, 171, 36, 225, 114],
  [34, 19, 21, 102, 132, 188, 16, 76, 124],
  [62, 18, 78, 95, 85, 57, 50, 48, 51],
 ],
 [
  [193, 101, 35, 159, 215, 111, 89, 46, 111],
  [60, 148, 31, 172, 219, 228, 21, 18, 111],
  [112, 113, 77, 85, 179, 255, 38, 120, 114],
  [40, 42, 1, 196, 245, 209, 10, 25, 109],
  [88, 43, 29, 140, 166, 213, 37, 43, 154],
  [61, 63, 30, 155, 67, 45, 68, 1, 209],
  [100, 80, 8, 43, 154, 1, 51, 26, 71],
  [142, 78, 78, 16, 255, 128, 34, 197, 171],
  [41, 40, 5, 102, 211, 183, 4, 1, 221],
  [51, 50, 17, 168, 209, 192, 23, 25, 82],
 ],
 [
  [138, 31, 36, 171, 27, 166, 38, 44, 229],
  [67, 87, 58, 169, 82, 115, 26, 59, 179],
  [63, 59, 90, 180, 59, 166, 93, 73, 154],
  [40, 40, 21, 116, 143, 209, 34, 39, 175],
  [47, 15, 16, 183, 34, 223, 49, 45, 183],
  [46, 17, 33, 183, 6, 98, 15, 32, 183],
  [57, 46, 22, 24, 128, 1, 54, 17, 37],
  [65, 32, 73, 115, 28, 128, 23, 128, 205],
  [40, 3, 9, 115, 51, 192, 18, 6, 223],
  [87, 37, 9, 115, 59, 77, 64, 21, 47],
 ],
 [
  [104, 55, 44, 218, 9, 54, 53, 130, 226],
  [64, 90, 70, 205, 40, 41, 23, 26, 57],
  [54, 57, 112, 184, 5, 41, 38, 166, 213],
  [30, 34, 26, 133, 152, 116, 10, 32, 134],
  [39, 19, 53, 221, 26, 114, 32, 73, 255],
  [31, 9, 65, 234, 2, 15, 1, 118, 73],
  [75, 32, 12, 51, 192, 255, 160, 43, 51],
  [88, 31, 35, 67, 102, 85, 55, 186, 85],
  [56, 21, 23, 111, 59, 205, 45, 37, 192],
  [55, 38, 70, 124, 73, 102, 1, 34, 98],
 ],
 [
  [125, 98, 42, 88, 104, 85, 117, 175, 82],
  [95, 84, 53, 89, 128, 100, 113, 101, 45],
  [75, 79, 123, 47, 51, 128, 81, 171, 1],
  [57, 17, 5, 71, 102, 57, 53, 41, 49],
  [38, 33, 13, 121, 57, 73, 26, 1, 85],
  [41, 10, 67, 138, 77, 110, 90, 47, 114],
  [115, 21, 2, 10, 102, 255, 166, 23, 6],
  [101, 29, 16, 10, 85, 128, 101, 196, 26],
  [57, 18, 10, 102, 102, 213, 34, 20, 43],
  [117, 20, 15, 36, 163, 128, 68, 1, 26],
 ],
 [
  [102, 61, 71, 37, 34, 53, 31, 243, 192],
  [69, 60, 71, 38, 73, 119, 28, 222, 37],
  [68, 45, 128, 34, 1, 47, 11, 245, 171],
  [62, 17, 19, 70, 146, 85, 55, 62, 70],
  [37, 43, 37, 154, 100, 163, 85, 160, 1],
  [63, 9, 92, 136, 28, 64, 32, 201, 85],
  [75, 15, 9, 9, 64, 255, 184, 119, 16],
  [86, 6, 28, 5, 64, 255, 25, 248, 1],
  [56, 8, 17, 132, 137, 255, 55, 116, 128],
  [58, 15, 20, 82, 135, 57, 26, 121, 40],
 ],
 [
  [164, 50, 31, 137, 154, 133, 25, 35, 218],
  [51, 103, 44, 131, 131, 123, 31, 6, 158],
  [86, 40, 64, 135, 148, 224, 45, 183, 128],
  [22, 26, 17, 131, 240, 154, 14, 1, 209],
  [45, 16, 21, 91, 64, 222, 7, 1, 197],
  [56, 21, 39, 155, 60, 138, 23, 102, 213],
  [83, 12, 13, 54, 192, 255, 68, 47, 28],
  [85, 26, 85, 85, 128, 128, 32, 146, 171],
  [18, 11, 7, 63, 144, 171, 4, 4, 246],
  [35, 27, 10, 146, 174, 171, 12, 26, 128],
 ],
 [
  [190, 80, 35, 99, 180, 80, 126, 54, 45],
  [85, 126, 47, 87, 176, 51, 41, 20, 32],
  [101, 75, 128, 139, 118, 146, 116, 128, 85],
  [56, 41, 15, 176, 236, 85, 37, 9, 62],
  [71, 30, 17, 119, 118, 255, 17, 18, 138],
  [101, 38, 60, 138, 55, 70, 43, 26, 142],
  [146, 36, 19, 30, 171, 255, 97, 27, 20],
  [138, 45, 61, 62, 219, 1, 81, 188, 64],
  [32, 41, 20, 117, 151, 142, 20, 21, 163],
  [112, 19, 12, 61, 195, 128, 48, 4, 24],
 ],
];
pub const DC_TABLE: [u16; 128] = [4, 5, 6, 7, 8, 9, 10, 10, 11, 12, 13, 14, 15, 16, 17, 17, 18, 19, 20, 20, 21, 21, 22, 22, 23, 23, 24, 25, 25, 26, 27, 28, 29, 30, 31, 32, 33, 34, 35, 36, 37, 37, 38, 39, 40, 41, 42, 43, 44, 45, 46, 46, 47, 48, 49, 50, 51, 52, 53, 54, 55, 56, 57, 58, 59, 60, 61, 62, 63, 64, 65, 66, 67, 68, 69, 70, 71, 72, 73, 74, 75, 76, 76, 77, 78, 79, 80, 81, 82, 83, 84, 85, 86, 87, 88, 89, 91, 93, 95, 96, 98, 100, 101, 102, 104, 106, 108, 110, 112, 114, 116, 118, 122, 124, 126, 128, 130, 132, 134, 136, 138, 140, 143, 145, 148, 151, 154, 157];
pub const AC_TABLE: [u16; 128] = [4, 5, 6, 7, 8, 9, 10, 11, 12, 13, 14, 15, 16, 17, 18, 19, 20, 21, 22, 23, 24, 25, 26, 27, 28, 29, 30, 31, 32, 33, 34, 35, 36, 37, 38, 39, 40, 41, 42, 43, 44, 45, 46, 47, 48, 49, 50, 51, 52, 53, 54, 55, 56, 57, 58, 60, 62, 64, 66, 68, 70, 72, 74, 76, 78, 80, 82, 84, 86, 88, 90, 92, 94, 96, 98, 100, 102, 104, 106, 108, 110, 112, 114, 116, 119, 122, 125, 128, 131, 134, 137, 140, 143, 146, 149, 152, 155, 158, 161, 164, 167, 170, 173, 177, 181, 185, 189, 193, 197, 201, 205, 209, 213, 217, 221, 225, 229, 234, 239, 245, 249, 254, 259, 264, 269, 274, 279, 284];
