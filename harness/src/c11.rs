//! C11: output buffers — size checked, every byte written, all wrappings agree.  Direct decision on the implementation.
use crate::corpus;
use crate::lw;
use crate::mux::*;
use crate::util::*;
use image_webp::WebPDecoder;
use std::io::Cursor;

fn decode_with(file: &[u8], fill: &dyn Fn(usize) -> Vec<u8>) -> Result<(u32, u32, bool, Vec<u8>), String> {
    let file = file.to_vec();
    let mut d = WebPDecoder::new(Cursor::new(file)).map_err(|e| format!("new: {e:?}"))?;
    let (w, h) = d.dimensions();
    let n = d.output_buffer_size().ok_or("no size")?;
    let mut buf = fill(n);
    d.read_image(&mut buf).map_err(|e| format!("read_image: {e:?}"))?;
    Ok((w, h, d.has_alpha(), buf))
}

fn drop_alpha(rgba: &[u8]) -> Vec<u8> {
    rgba.chunks_exact(4).flat_map(|p| [p[0], p[1], p[2]]).collect()
}

pub fn run(tier: &str, seed: u64, outdir: &str, _extra: &[String]) {
    let out = Out::new(outdir);
    let mut rng = Rng::new(seed);
    let thorough = tier == "thorough";
    let mut files = corpus::test_images(if thorough { 400_000 } else { 80_000 });
    files.extend(corpus::generated_stills(&mut rng, if thorough { 400 } else { 100 }, 28));
    files.extend(corpus::generated_animations(&mut rng, if thorough { 60 } else { 15 }, 16));
    files.extend(corpus::generated_filtered_alpha_stills(&mut rng, if thorough { 160 } else { 40 }, 24));
    files.extend(corpus::generated_vp8l(&mut rng, if thorough { 100 } else { 25 }));
    let scaled = corpus::with_scale_bits(&mut rng, &files, 3);
    files.extend(scaled);
    let mut violations: Vec<String> = vec![];
    let mut known_f18 = 0u64;
    let (mut evals, mut wrong_len_checks, mut wrap_checks, mut prefill_checks) = (0u64, 0u64, 0u64, 0u64);
    let mut kinds = std::collections::BTreeMap::new();
    let mut samples = vec![];
    let mut viol = |v: &mut Vec<String>, s: String| { if v.len() < 25 { v.push(s); } };

    for it in &files {
        *kinds.entry(it.kind).or_insert(0u64) += 1;
        let name = &it.name;
        // ---- size, prefill independence, idempotence, wrong lengths ----
        let r = catch(std::panic::AssertUnwindSafe(|| -> Result<(), String> {
            let mut d = WebPDecoder::new(Cursor::new(it.bytes.clone())).map_err(|e| format!("new: {e:?}"))?;
            let (w, h) = d.dimensions();
            let bpp = if d.has_alpha() { 4 } else { 3 };
            let n = d.output_buffer_size().ok_or("no size")?;
            if n != w as usize * h as usize * bpp { return Err(format!("VIOL output_buffer_size {} != {}x{}x{}", n, w, h, bpp)); }
            let mut b0 = vec![0u8; n];
            d.read_image(&mut b0).map_err(|e| format!("read_image: {e:?}"))?;
            let mut b1 = vec![0xffu8; n];
            d.read_image(&mut b1).map_err(|e| format!("second read_image: {e:?}"))?;
            let mut b2: Vec<u8> = (0..n).map(|i| (i as u8).wrapping_mul(37).wrapping_add(11)).collect();
            d.read_image(&mut b2).map_err(|e| format!("third read_image: {e:?}"))?;
            if b0 != b1 || b0 != b2 {
                let i = (0..n).find(|&i| b0[i] != b1[i] || b0[i] != b2[i]).unwrap();
                return Err(format!("VIOL output depends on previous buffer contents / call count at byte {} ({} {} {})", i, b0[i], b1[i], b2[i]));
            }
            // wrong lengths: error and buffer untouched
            for wrong in [0usize, n.saturating_sub(1), n + 1, n * 4 / 3, n * 3 / 4, n + 4] {
                if wrong == n { continue; }
                let mut b: Vec<u8> = (0..wrong).map(|i| (i as u8) ^ 0x6b).collect();
                let before = b.clone();
                match d.read_image(&mut b) {
                    Ok(()) => return Err(format!("VIOL read_image accepted a buffer of length {} (needs {})", wrong, n)),
                    Err(_) => if b != before { return Err(format!("VIOL read_image modified a wrong-length buffer (len {})", wrong)); },
                }
            }
            Ok(())
        }));
        evals += 1; prefill_checks += 1; wrong_len_checks += 6;
        match r {
            Ok(Ok(())) => {}
            Ok(Err(e)) => if e.starts_with("VIOL") { viol(&mut violations, format!("{name}: {e}")) } else if it.kind != "animated" || true {
                // a corpus file the crate cannot decode at all: report (valid files must decode)
                viol(&mut violations, format!("{name}: valid file rejected: {e}"))
            },
            Err(p) => viol(&mut violations, format!("{name}: PANIC {p}")),
        }

        // ---- wrappings of one payload ----
        if it.kind == "animated" {
            // the two settings of the VP8X alpha flag are the two "wrappings" of an animation: the RGB output (flag clear)
            // must be the RGBA output (flag set) with the alpha byte dropped
            if it.bytes.len() > 21 && &it.bytes[12..16] == b"VP8X" {
                let (mut on, mut off) = (it.bytes.clone(), it.bytes.clone());
                on[20] |= 0x10;
                off[20] &= !0x10;
                let ra = catch(std::panic::AssertUnwindSafe(|| decode_with(&on, &|n| vec![0x3c; n])));
                let rb = catch(std::panic::AssertUnwindSafe(|| decode_with(&off, &|n| vec![0xc3; n])));
                wrap_checks += 2;
                match (ra, rb) {
                    (Ok(Ok((_, _, true, pa))), Ok(Ok((_, _, false, pb)))) => {
                        let want = drop_alpha(&pa);
                        if pb != want {
                            let i = (0..pb.len().min(want.len())).find(|&i| pb[i] != want[i]).unwrap_or(0);
                            viol(&mut violations, format!("{name}/anim_alpha_flag: RGB output (flag clear) differs from the RGBA output (flag set) with alpha dropped at byte {} ({} vs {})", i, pb.get(i).copied().unwrap_or(0), want.get(i).copied().unwrap_or(0)));
                        }
                    }
                    (Ok(Ok(a)), Ok(Ok(b))) => viol(&mut violations, format!("{name}/anim_alpha_flag: has_alpha {} / {} do not follow the flag", a.2, b.2)),
                    (Ok(Err(_)), Ok(Err(_))) => {}
                    (Ok(a), Ok(b)) => viol(&mut violations, format!("{name}/anim_alpha_flag: one flag setting decodes, the other does not: {:?} / {:?}", a.map(|x| x.0), b.map(|x| x.0))),
                    (Err(pn), _) | (_, Err(pn)) => viol(&mut violations, format!("{name}/anim_alpha_flag: PANIC {pn}")),
                }
            }
            continue;
        }
        let ic = image_chunks(&it.bytes);
        let Some((cc, p)) = ic.iter().find(|c| &c.0 != b"ALPH") else { continue };
        let Some((w, h)) = payload_dims(cc, p) else { continue };
        let has_alph = ic.iter().any(|c| &c.0 == b"ALPH");
        let lossless = cc == b"VP8L";
        let mut variants: Vec<(String, Vec<u8>)> = vec![];
        if !has_alph { variants.push(("simple".into(), riff(&[(*cc, p.clone())]))); }
        for f in [false, true] {
            let mut chunks = vec![vp8x(if f { FLAG_ALPHA } else { 0 }, w, h)];
            chunks.extend(ic.iter().cloned());
            variants.push((format!("vp8x_alpha{}", f as u8), riff(&chunks)));
            let fr = Frame { x: 0, y: 0, w, h, duration: 40, blend: false, dispose: false, chunks: ic.clone() };
            variants.push((format!("anmf_alpha{}", f as u8), animation(w, h, f, [1, 2, 3, 4], 0, &[fr])));
            if !lossless && !has_alph {
                // an opaque lossy frame with the blending bit set, over a translucent background: the canvas must become opaque
                // (lossless / ALPH frames are left out: blending them meets the known finding F14)
                let fr = Frame { x: 0, y: 0, w, h, duration: 40, blend: true, dispose: false, chunks: ic.clone() };
                variants.push((format!("anmf_blend_alpha{}", f as u8), animation(w, h, f, [9, 8, 7, 0x80], 0, &[fr])));
            }
        }
        // reference RGBA: libwebp for lossless payloads; the crate's own vp8x_alpha1 decode otherwise
        let mut reference: Option<Vec<u8>> = None;
        if lossless {
            if let Some((_, _, px)) = lw::decode_rgba(&riff(&[(*cc, p.clone())])) { reference = Some(px); }
        }
        let mut results = vec![];
        for (vn, vb) in &variants {
            let vb2 = vb.clone();
            let r = catch(std::panic::AssertUnwindSafe(|| decode_with(&vb2, &|n| vec![0x3c; n])));
            wrap_checks += 1;
            match r {
                Ok(Ok((ww, hh, a, px))) => {
                    if (ww, hh) != (w, h) { viol(&mut violations, format!("{name}/{vn}: dimensions {ww}x{hh} != payload {w}x{h}")); }
                    results.push((vn.clone(), a, px));
                }
                Ok(Err(e)) => {
                    // known F18 class: VP8X alpha flag set, lossy payload, no ALPH chunk
                    if vn == "vp8x_alpha1" && !lossless && !has_alph && e.contains("ChunkMissing") { known_f18 += 1; }
                    else { viol(&mut violations, format!("{name}/{vn}: wrapping rejected: {e}")); }
                }
                Err(pn) => viol(&mut violations, format!("{name}/{vn}: PANIC {pn}")),
            }
        }
        if reference.is_none() {
            reference = results.iter().find(|r| r.1).map(|r| r.2.clone());
        }
        if let Some(rf) = &reference {
            let rgb = drop_alpha(rf);
            for (vn, a, px) in &results {
                let want = if *a { rf } else { &rgb };
                if px != want {
                    let i = (0..px.len().min(want.len())).find(|&i| px[i] != want[i]).unwrap_or(0);
                    viol(&mut violations, format!("{name}/{vn}: pixels differ from the reference wrapping at byte {} ({} vs {}), alpha={}", i, px.get(i).copied().unwrap_or(0), want.get(i).copied().unwrap_or(0), a));
                }
            }
        } else if results.len() > 1 {
            for (vn, _, px) in &results[1..] {
                if *px != results[0].2 { viol(&mut violations, format!("{name}/{vn}: RGB pixels differ from {}", results[0].0)); }
            }
        }
        if samples.len() < 6 { samples.push(format!("{name}: payload {} {}x{} alph={} variants={:?}", String::from_utf8_lossy(cc), w, h, has_alph, variants.iter().map(|v| v.0.clone()).collect::<Vec<_>>())); }
    }
    let stats = format!(
        "{{\"evaluations\": {}, \"files\": {}, \"kinds\": {{{}}}, \"prefill_idempotence_checks\": {}, \"wrong_length_checks\": {}, \"wrapping_decodes\": {}, \"known_f18\": {}, \"samples\": [{}], \"violations\": [{}]}}",
        evals + wrap_checks, files.len(), kinds.iter().map(|(k, v)| format!("\"{k}\": {v}")).collect::<Vec<_>>().join(", "),
        prefill_checks, wrong_len_checks, wrap_checks, known_f18,
        samples.iter().map(|s| jstr(s)).collect::<Vec<_>>().join(", "),
        violations.iter().map(|v| jstr(v)).collect::<Vec<_>>().join(", "));
    out.finish(&stats);
}
