//! libwebp (through libwebp-sys, vendored C sources of libwebp 1.3.1) as the independent reference of the lossy
//! checks c02 / c05: plane decoding, RGB(A) decoding without fancy upsampling, encoding with arbitrary `WebPConfig`,
//! a tiny RIFF muxer and RIFF chunk walker.
#![allow(dead_code)]
use libwebp_sys as lw;
use std::os::raw::c_int;

extern "C" {
    /// `src/dsp/cpu.c`: "VP8CPUInfo VP8GetCPUInfo = x86CPUInfo;" -- libwebp documents that setting it to NULL
    /// disables every SIMD code path ("useful for testing").  Every dsp init function re-runs when the pointer changes.
    static mut VP8GetCPUInfo: Option<unsafe extern "C" fn(c_int) -> c_int>;
}
thread_local! {
    static SAVED_CPUINFO: std::cell::Cell<Option<Option<unsafe extern "C" fn(c_int) -> c_int>>> = const { std::cell::Cell::new(None) };
}

/// `true`: libwebp uses its plain-C kernels (the reference arithmetic: `int` intermediates, `int16_t` coefficients);
/// `false`: whatever the CPU offers (SSE2 on x86-64).  Single-threaded use only.
pub fn force_c(on: bool) {
    SAVED_CPUINFO.with(|saved| unsafe {
        if saved.get().is_none() {
            saved.set(Some(VP8GetCPUInfo));
        }
        VP8GetCPUInfo = if on { None } else { saved.get().unwrap() };
    })
}

pub struct Planes {
    pub w: usize,
    pub h: usize,
    pub y: Vec<u8>,
    pub u: Vec<u8>,
    pub v: Vec<u8>,
}

fn copy_rows(p: *const u8, stride: usize, w: usize, h: usize) -> Vec<u8> {
    let mut out = Vec::with_capacity(w * h);
    for r in 0..h {
        out.extend_from_slice(unsafe { std::slice::from_raw_parts(p.add(r * stride), w) });
    }
    out
}

/// `WebPDecodeYUV` on a complete file; `None` if libwebp rejects it.
pub fn decode_yuv(file: &[u8]) -> Option<Planes> {
    unsafe {
        let (mut w, mut h) = (0 as c_int, 0 as c_int);
        let (mut u, mut v): (*mut u8, *mut u8) = (std::ptr::null_mut(), std::ptr::null_mut());
        let (mut st, mut uvst) = (0 as c_int, 0 as c_int);
        let y = lw::WebPDecodeYUV(file.as_ptr(), file.len(), &mut w, &mut h, &mut u, &mut v, &mut st, &mut uvst);
        if y.is_null() {
            return None;
        }
        let (w, h) = (w as usize, h as usize);
        let (cw, ch) = ((w + 1) / 2, (h + 1) / 2);
        let r = Planes {
            w,
            h,
            y: copy_rows(y, st as usize, w, h),
            u: copy_rows(u, uvst as usize, cw, ch),
            v: copy_rows(v, uvst as usize, cw, ch),
        };
        lw::WebPFree(y as *mut _);
        Some(r)
    }
}

/// Advanced-API decode to YUV planes with the loop filter bypassed (used only to measure how often the generated
/// frames make the loop filter change something).
pub fn decode_yuv_nofilter(file: &[u8]) -> Option<Planes> {
    unsafe {
        let mut cfg: lw::WebPDecoderConfig = std::mem::zeroed();
        if !lw::WebPInitDecoderConfig(&mut cfg) {
            return None;
        }
        cfg.options.bypass_filtering = 1;
        cfg.output.colorspace = lw::WEBP_CSP_MODE::MODE_YUV;
        let st = lw::WebPDecode(file.as_ptr(), file.len(), &mut cfg);
        if st != lw::VP8StatusCode::VP8_STATUS_OK {
            lw::WebPFreeDecBuffer(&mut cfg.output);
            return None;
        }
        let (w, h) = (cfg.output.width as usize, cfg.output.height as usize);
        let b = cfg.output.u.YUVA;
        let (cw, ch) = ((w + 1) / 2, (h + 1) / 2);
        let r = Planes {
            w,
            h,
            y: copy_rows(b.y, b.y_stride as usize, w, h),
            u: copy_rows(b.u, b.u_stride as usize, cw, ch),
            v: copy_rows(b.v, b.v_stride as usize, cw, ch),
        };
        lw::WebPFreeDecBuffer(&mut cfg.output);
        Some(r)
    }
}

/// `WebPDecode` with `no_fancy_upsampling = 1` into RGB (3 bytes) or RGBA (4 bytes, not premultiplied).
pub fn decode_rgb_nofancy(file: &[u8], alpha: bool) -> Option<(usize, usize, Vec<u8>)> {
    unsafe {
        let mut cfg: lw::WebPDecoderConfig = std::mem::zeroed();
        if !lw::WebPInitDecoderConfig(&mut cfg) {
            return None;
        }
        cfg.options.no_fancy_upsampling = 1;
        cfg.output.colorspace = if alpha { lw::WEBP_CSP_MODE::MODE_RGBA } else { lw::WEBP_CSP_MODE::MODE_RGB };
        let st = lw::WebPDecode(file.as_ptr(), file.len(), &mut cfg);
        if st != lw::VP8StatusCode::VP8_STATUS_OK {
            lw::WebPFreeDecBuffer(&mut cfg.output);
            return None;
        }
        let (w, h) = (cfg.output.width as usize, cfg.output.height as usize);
        let b = cfg.output.u.RGBA;
        let bpp = if alpha { 4 } else { 3 };
        let out = copy_rows(b.rgba, b.stride as usize, w * bpp, h);
        lw::WebPFreeDecBuffer(&mut cfg.output);
        Some((w, h, out))
    }
}

/// (width, height, has_alpha, has_animation) as libwebp's `WebPGetFeatures` reports them.
pub fn features(file: &[u8]) -> Option<(usize, usize, bool, bool)> {
    unsafe {
        let mut f: lw::WebPBitstreamFeatures = std::mem::zeroed();
        if lw::WebPGetFeatures(file.as_ptr(), file.len(), &mut f) != lw::VP8StatusCode::VP8_STATUS_OK {
            return None;
        }
        Some((f.width as usize, f.height as usize, f.has_alpha != 0, f.has_animation != 0))
    }
}

/// `WebPEncode` of an RGB (bpp 3) or RGBA (bpp 4) image; `cfgmod` edits the default configuration.
pub fn encode(w: usize, h: usize, pix: &[u8], bpp: usize, quality: f32, cfgmod: impl Fn(&mut lw::WebPConfig)) -> Option<Vec<u8>> {
    unsafe {
        let mut cfg: lw::WebPConfig = std::mem::zeroed();
        if lw::WebPConfigInitInternal(&mut cfg, lw::WebPPreset::WEBP_PRESET_DEFAULT, quality, lw::WEBP_ENCODER_ABI_VERSION as c_int) == 0 {
            return None;
        }
        cfgmod(&mut cfg);
        if lw::WebPValidateConfig(&cfg) == 0 {
            return None;
        }
        let mut pic: lw::WebPPicture = std::mem::zeroed();
        if lw::WebPPictureInitInternal(&mut pic, lw::WEBP_ENCODER_ABI_VERSION as c_int) == 0 {
            return None;
        }
        pic.width = w as c_int;
        pic.height = h as c_int;
        pic.use_argb = cfg.lossless;
        let ok = if bpp == 4 {
            lw::WebPPictureImportRGBA(&mut pic, pix.as_ptr(), (w * 4) as c_int)
        } else {
            lw::WebPPictureImportRGB(&mut pic, pix.as_ptr(), (w * 3) as c_int)
        };
        if ok == 0 {
            lw::WebPPictureFree(&mut pic);
            return None;
        }
        let mut wr: lw::WebPMemoryWriter = std::mem::zeroed();
        lw::WebPMemoryWriterInit(&mut wr);
        pic.writer = Some(lw::WebPMemoryWrite);
        pic.custom_ptr = &mut wr as *mut _ as *mut std::ffi::c_void;
        let ok = lw::WebPEncode(&cfg, &mut pic);
        let out = if ok != 0 { Some(std::slice::from_raw_parts(wr.mem, wr.size).to_vec()) } else { None };
        lw::WebPMemoryWriterClear(&mut wr);
        lw::WebPPictureFree(&mut pic);
        out
    }
}

/// A VP8L bit stream *without* its 5-byte header whose green channel is `alpha` (what an ALPH chunk with
/// compression method 1 carries), produced by libwebp's lossless encoder.
pub fn encode_alpha_vp8l(w: usize, h: usize, alpha: &[u8], method: i32, quality: f32) -> Option<Vec<u8>> {
    let mut rgba = Vec::with_capacity(w * h * 4);
    for &a in alpha {
        rgba.extend_from_slice(&[0, a, 0, 255]);
    }
    let f = encode(w, h, &rgba, 4, quality, |c| {
        c.lossless = 1;
        c.method = method;
        c.exact = 1;
    })?;
    let (_, payload) = chunks(&f).into_iter().find(|(cc, _)| cc == b"VP8L")?;
    if payload.len() < 5 || payload[0] != 0x2f {
        return None;
    }
    Some(payload[5..].to_vec())
}

// ------------------------------------------------------------------------------------------------
// RIFF helpers
// ------------------------------------------------------------------------------------------------

/// top-level chunks of a RIFF/WEBP file: (fourcc, payload)
pub fn chunks(file: &[u8]) -> Vec<([u8; 4], Vec<u8>)> {
    let mut out = vec![];
    if file.len() < 12 || &file[0..4] != b"RIFF" || &file[8..12] != b"WEBP" {
        return out;
    }
    walk(&file[12..], &mut out);
    out
}

fn walk(mut b: &[u8], out: &mut Vec<([u8; 4], Vec<u8>)>) {
    while b.len() >= 8 {
        let cc = [b[0], b[1], b[2], b[3]];
        let sz = u32::from_le_bytes([b[4], b[5], b[6], b[7]]) as usize;
        let end = (8 + sz).min(b.len());
        out.push((cc, b[8..end].to_vec()));
        let adv = 8 + sz + (sz & 1);
        if adv >= b.len() {
            break;
        }
        b = &b[adv..];
    }
}

/// every `VP8 ` payload of a file, including those inside ANMF frames
pub fn vp8_payloads(file: &[u8]) -> Vec<Vec<u8>> {
    let mut res = vec![];
    for (cc, p) in chunks(file) {
        if &cc == b"VP8 " {
            res.push(p);
        } else if &cc == b"ANMF" && p.len() > 16 {
            let mut inner = vec![];
            walk(&p[16..], &mut inner);
            for (c2, p2) in inner {
                if &c2 == b"VP8 " {
                    res.push(p2);
                }
            }
        }
    }
    res
}

pub fn chunk(fourcc: &[u8; 4], payload: &[u8]) -> Vec<u8> {
    let mut v = fourcc.to_vec();
    v.extend_from_slice(&(payload.len() as u32).to_le_bytes());
    v.extend_from_slice(payload);
    if payload.len() & 1 == 1 {
        v.push(0);
    }
    v
}

pub fn riff(body: &[u8]) -> Vec<u8> {
    let mut v = b"RIFF".to_vec();
    v.extend_from_slice(&((body.len() + 4) as u32).to_le_bytes());
    v.extend_from_slice(b"WEBP");
    v.extend_from_slice(body);
    v
}

/// simple container: RIFF / WEBP / `VP8 `
pub fn simple_vp8(payload: &[u8]) -> Vec<u8> {
    riff(&chunk(b"VP8 ", payload))
}

/// VP8X header chunk (flags byte as given, canvas w x h)
pub fn vp8x(flags: u8, w: usize, h: usize) -> Vec<u8> {
    let mut p = vec![flags, 0, 0, 0];
    p.extend_from_slice(&((w - 1) as u32).to_le_bytes()[..3]);
    p.extend_from_slice(&((h - 1) as u32).to_le_bytes()[..3]);
    chunk(b"VP8X", &p)
}

pub const VP8X_ALPHA: u8 = 0x10;

/// extended container: VP8X, optional ALPH, `VP8 `, then any extra chunks
pub fn extended_vp8(flags: u8, w: usize, h: usize, alph: Option<&[u8]>, vp8: &[u8], extra: &[Vec<u8>]) -> Vec<u8> {
    let mut body = vp8x(flags, w, h);
    if let Some(a) = alph {
        body.extend_from_slice(&chunk(b"ALPH", a));
    }
    body.extend_from_slice(&chunk(b"VP8 ", vp8));
    for e in extra {
        body.extend_from_slice(e);
    }
    riff(&body)
}
