//! readimage: the glue of `WebPDecoder::read_image` and of the payload branches of `read_frame`, through the public API,
//! against the Coq model `Model.ReadImage` (on top of Model.Container / Lossless / Yuv / Alpha / Anim, with the extracted
//! `Spec.VP8.decode` as the VP8 frame decoder).
//!
//! case lines / result lines (oracle plug-in `ocaml/o_readimage.ml`)
//!   `rimg still <buflen> <fill> <hex file>`   WebPDecoder::new + read_image on a buffer of <buflen> bytes, all <fill>
//!      -> `NEWERR <variant>` | `OK <w> <h> <alpha> <anim> <pixels>` | `ERR <variant> <w> <h> <alpha> <anim> buf=<same|?|pixels>`
//!   `rimg frames <n> <fill> <hex file>`       WebPDecoder::new + n x read_frame on a buffer of output_buffer_size() bytes
//!      -> `NEWERR <variant>` | `<w> <h> <alpha> <anim>` + per call ` | OK <duration> <pixels>` / ` | ERR <variant>` (trace ends there)
//!   `rimg ops <ops> <fill> <hex file>`        WebPDecoder::new + the call sequence over F read_frame, R reset_animation, I read_image,
//!      S caller refills its buffer, on ONE buffer -> `<w> <h> <alpha> <anim>` + per call ` | F OK <dur> <pixels>` / ` | F ERR <variant> <pixels>` /
//!      ` | I OK <pixels>` / ` | I ERR <variant> <pixels>` / ` | R` / ` | S` (<pixels> = the caller's buffer after the call)
//!   <pixels>: hex, or `H<fnv1a64>` above 16384 pixels.  `buf=?`: the lossless decoder failed while writing in place in the
//!   caller's buffer (still VP8L file with alpha); the model does not describe the partial contents.
//!   An error raised by the VP8 frame decoder is printed as variant `Vp8Decode` (the VP8 specification has no error classes):
//!   the harness recognises it by running the crate's own `Vp8Decoder::decode_frame` on the payload the decoder was given.
//!
//! Inputs: the shared corpus (stills of every kind, animations, filtered-alpha stills, scale-bit variants), every ALPH variant
//! (filter x raw / lossless x pre-processing bit) as still, as single ANMF frame and inside multi-frame animations, every
//! wrapping of a VP8 / VP8L payload, wrong buffer lengths, frame / canvas size mismatches, damaged ALPH chunks, alpha flag
//! without ALPH and ALPH without flag, ANMF size-field surgery, truncated payloads.
//! Native decisions (violations): a panic; a wrong-length buffer accepted or modified; NoMoreFrames missing after the last frame.
use crate::c02;
use crate::c05;
use crate::corpus;
use crate::gen_vp8::{self, Features, GenOpts};
use crate::lw;
use crate::mux;
use crate::ref_webp as rw;
use crate::util::*;
use image_webp::{DecodingError, WebPDecoder};
use std::io::Cursor;

const FILL: u8 = 0x5a;

fn err_name(e: &DecodingError) -> &'static str {
    #[allow(deprecated)]
    match e {
        DecodingError::IoError(_) => "IoError",
        DecodingError::RiffSignatureInvalid(_) => "RiffSignatureInvalid",
        DecodingError::WebpSignatureInvalid(_) => "WebpSignatureInvalid",
        DecodingError::ChunkMissing => "ChunkMissing",
        DecodingError::ChunkHeaderInvalid(_) => "ChunkHeaderInvalid",
        DecodingError::ReservedBitSet => "ReservedBitSet",
        DecodingError::InvalidAlphaPreprocessing => "InvalidAlphaPreprocessing",
        DecodingError::InvalidCompressionMethod => "InvalidCompressionMethod",
        DecodingError::AlphaChunkSizeMismatch => "AlphaChunkSizeMismatch",
        DecodingError::ImageTooLarge => "ImageTooLarge",
        DecodingError::FrameOutsideImage => "FrameOutsideImage",
        DecodingError::LosslessSignatureInvalid(_) => "LosslessSignatureInvalid",
        DecodingError::VersionNumberInvalid(_) => "VersionNumberInvalid",
        DecodingError::InvalidColorCacheBits(_) => "InvalidColorCacheBits",
        DecodingError::HuffmanError => "HuffmanError",
        DecodingError::BitStreamError => "BitStreamError",
        DecodingError::TransformError => "TransformError",
        DecodingError::Vp8MagicInvalid(_) => "Vp8MagicInvalid",
        DecodingError::NotEnoughInitData => "NotEnoughInitData",
        DecodingError::ColorSpaceInvalid(_) => "ColorSpaceInvalid",
        DecodingError::LumaPredictionModeInvalid(_) => "LumaPredictionModeInvalid",
        DecodingError::IntraPredictionModeInvalid(_) => "IntraPredictionModeInvalid",
        DecodingError::ChromaPredictionModeInvalid(_) => "ChromaPredictionModeInvalid",
        DecodingError::InconsistentImageSizes => "InconsistentImageSizes",
        DecodingError::UnsupportedFeature(_) => "UnsupportedFeature",
        DecodingError::InvalidParameter(_) => "InvalidParameter",
        DecodingError::MemoryLimitExceeded => "MemoryLimitExceeded",
        DecodingError::InvalidChunkSize => "InvalidChunkSize",
        DecodingError::NoMoreFrames => "NoMoreFrames",
        _ => "other",
    }
}

fn fnv(b: &[u8]) -> u64 {
    let mut h = 0xcbf29ce484222325u64;
    for &x in b {
        h = (h ^ x as u64).wrapping_mul(0x100000001b3);
    }
    h
}

fn pixels(w: u32, h: u32, b: &[u8]) -> String {
    if (w as u64) * (h as u64) > 16384 {
        format!("H{:016x}", fnv(b))
    } else {
        hex(b)
    }
}

/// variant with which the crate's VP8 frame decoder rejects `payload` (None: it decodes)
fn vp8_standalone(payload: &[u8]) -> Option<&'static str> {
    let v = payload.to_vec();
    match catch(move || image_webp::vp8::Vp8Decoder::decode_frame(Cursor::new(v)).map(|_| ())) {
        Ok(Ok(())) => None,
        Ok(Err(e)) => Some(err_name(&e)),
        Err(_) => Some("PANIC"),
    }
}

fn clip(file: &[u8], start: u64, len: u64) -> &[u8] {
    let s = (start.min(file.len() as u64)) as usize;
    let e = (start.saturating_add(len).min(file.len() as u64)) as usize;
    &file[s..e]
}

fn le32(file: &[u8], p: u64) -> Option<u64> {
    let p = p as usize;
    if p.checked_add(4)? > file.len() {
        return None;
    }
    Some(u32::from_le_bytes([file[p], file[p + 1], file[p + 2], file[p + 3]]) as u64)
}

/// Locates the frame read_frame would decode when `next_frame_start` is `pos` (chunks that are not ANMF are stepped over),
/// and the VP8 payload it hands to the VP8 decoder, provided everything read before it is readable (used only to label an
/// error as coming from the VP8 decoder).  Returns (offset of the ANMF header, ANMF size field, payload).
fn frame_vp8_payload(file: &[u8], mut pos: u64) -> Option<(u64, u64, Option<Vec<u8>>)> {
    loop {
        let p = pos as usize;
        if p.checked_add(8)? > file.len() {
            return None;
        }
        if &file[p..p + 4] == b"ANMF" {
            break;
        }
        let sz = le32(file, pos + 4)?;
        pos = pos.checked_add(8 + sz + (sz & 1))?;
    }
    let anmf_size = le32(file, pos + 4)?;
    let at = |o: u64, n: usize| -> Option<&[u8]> {
        let s = (pos + o) as usize;
        if s + n <= file.len() { Some(&file[s..s + n]) } else { None }
    };
    let dims = at(8 + 6, 6)?;
    let fw = (dims[0] as u32 | (dims[1] as u32) << 8 | (dims[2] as u32) << 16) + 1;
    let fh = (dims[3] as u32 | (dims[4] as u32) << 8 | (dims[5] as u32) << 16) + 1;
    let sub = at(24, 8)?;
    let size = u32::from_le_bytes([sub[4], sub[5], sub[6], sub[7]]) as u64;
    let body = pos + 32;
    if &sub[..4] == b"VP8 " {
        return Some((pos, anmf_size, Some(clip(file, body, size).to_vec())));
    }
    if &sub[..4] == b"ALPH" {
        let a = clip(file, body, size).to_vec();
        let alpha_ok = matches!(catch(move || image_webp::verif::read_alpha_chunk(&a, fw as u16, fh as u16).is_ok()), Ok(true));
        let next = body + size + (size & 1);
        if alpha_ok {
            if let Some(nsize) = le32(file, next + 4) {
                return Some((pos, anmf_size, Some(clip(file, next + 8, nsize).to_vec())));
            }
        }
    }
    Some((pos, anmf_size, None))
}

fn label(name: &'static str, vp8_payload: Option<&[u8]>) -> &'static str {
    match vp8_payload {
        Some(p) if vp8_standalone(p) == Some(name) => "Vp8Decode",
        _ => name,
    }
}

/// number of frames libwebp's WebPAnimDecoder delivers (None: libwebp rejects the file); adequacy observations only
fn libwebp_anim_frames(file: &[u8]) -> Option<usize> {
    unsafe {
        let mut opt: libwebp_sys::WebPAnimDecoderOptions = std::mem::zeroed();
        if libwebp_sys::WebPAnimDecoderOptionsInitInternal(&mut opt, libwebp_sys::WEBP_DEMUX_ABI_VERSION as i32) == 0 {
            return None;
        }
        opt.color_mode = libwebp_sys::WEBP_CSP_MODE::MODE_RGBA;
        let data = libwebp_sys::WebPData { bytes: file.as_ptr(), size: file.len() };
        let dec = libwebp_sys::WebPAnimDecoderNewInternal(&data, &opt, libwebp_sys::WEBP_DEMUX_ABI_VERSION as i32);
        if dec.is_null() {
            return None;
        }
        let mut n = 0usize;
        while libwebp_sys::WebPAnimDecoderHasMoreFrames(dec) != 0 {
            let mut p: *mut u8 = std::ptr::null_mut();
            let mut ts = 0i32;
            if libwebp_sys::WebPAnimDecoderGetNext(dec, &mut p, &mut ts) == 0 {
                libwebp_sys::WebPAnimDecoderDelete(dec);
                return None;
            }
            n += 1;
        }
        libwebp_sys::WebPAnimDecoderDelete(dec);
        Some(n)
    }
}

fn b(x: bool) -> u8 {
    x as u8
}

/// WebPDecoder::new + read_image; `buflen`: None = output_buffer_size().  Returns (buffer length used, result line).
pub fn still_impl(file: &[u8], buflen: Option<usize>, fill: u8) -> (usize, String) {
    let f = file.to_vec();
    let r = catch(move || -> (usize, String) {
        let mut d = match WebPDecoder::new(Cursor::new(f.clone())) {
            Ok(d) => d,
            Err(e) => return (buflen.unwrap_or(0), format!("NEWERR {}", err_name(&e))),
        };
        let (w, h) = d.dimensions();
        let (alpha, anim) = (d.has_alpha(), d.is_animated());
        let exact = d.output_buffer_size();
        let n = buflen.unwrap_or(exact.unwrap_or(0));
        let (table, nfs) = d.verif_chunk_table();
        let find = |cc: &[u8; 4]| table.iter().find(|c| &c.0 == cc).map(|c| (c.1, c.2));
        let mut buf = vec![fill; n];
        match d.read_image(&mut buf) {
            Ok(()) => (n, format!("OK {} {} {} {} {}", w, h, b(alpha), b(anim), pixels(w, h, &buf))),
            Err(e) => {
                let len_ok = Some(n) == exact;
                let mut name = err_name(&e);
                if len_ok {
                    // which VP8 payload was handed to the VP8 decoder (if the call got that far)
                    let payload: Option<Vec<u8>> = if anim {
                        let _ = nfs;
                        find(b"ANMF").and_then(|(s, _)| frame_vp8_payload(&f, s - 8)).and_then(|x| x.2)
                    } else if find(b"VP8L").is_none() {
                        find(b"VP8 ").map(|(s, e)| clip(&f, s, e - s).to_vec())
                    } else {
                        None
                    };
                    name = label(name, payload.as_deref());
                }
                let in_place_lossless = len_ok && !anim && alpha && find(b"VP8L").is_some();
                let state = if in_place_lossless {
                    "?".to_string()
                } else if buf.iter().all(|&x| x == fill) {
                    "same".to_string()
                } else {
                    pixels(w, h, &buf)
                };
                (n, format!("ERR {} {} {} {} {} buf={}", name, w, h, b(alpha), b(anim), state))
            }
        }
    });
    match r {
        Ok(x) => x,
        Err(m) => (buflen.unwrap_or(0), format!("PANIC {}", m.replace('\n', " "))),
    }
}

/// WebPDecoder::new + n calls of read_frame (the trace ends at the first call that fails)
pub fn frames_impl(file: &[u8], n: usize, fill: u8) -> String {
    let f = file.to_vec();
    let r = catch(move || -> String {
        let mut d = match WebPDecoder::new(Cursor::new(f.clone())) {
            Ok(d) => d,
            Err(e) => return format!("NEWERR {}", err_name(&e)),
        };
        let (w, h) = d.dimensions();
        let mut s = format!("{} {} {} {}", w, h, b(d.has_alpha()), b(d.is_animated()));
        if !d.is_animated() {
            return s + " | PANIC assert"; // read_frame asserts is_animated(); never generated
        }
        let (_, mut pos) = d.verif_chunk_table();
        let mut buf = vec![fill; d.output_buffer_size().unwrap_or(0)];
        for _ in 0..n {
            let walk = frame_vp8_payload(&f, pos);
            match d.read_frame(&mut buf) {
                Ok(dur) => {
                    s += &format!(" | OK {} {}", dur, pixels(w, h, &buf));
                    pos = walk.map(|x| x.0 + x.1 + 8).unwrap_or(pos);
                }
                Err(e) => {
                    let name = err_name(&e);
                    let name = if name == "NoMoreFrames" { name } else { label(name, walk.and_then(|x| x.2).as_deref()) };
                    s += &format!(" | ERR {}", name);
                    break;
                }
            }
        }
        s
    });
    match r {
        Ok(x) => x,
        Err(m) => format!("PANIC {}", m.replace('\n', " ")),
    }
}

/// WebPDecoder::new + a call sequence over F / R / I / S on one buffer (animated files only: read_frame asserts it)
pub fn ops_impl(file: &[u8], ops: &str, fill: u8) -> String {
    let f = file.to_vec();
    let ops = ops.to_string();
    let r = catch(move || -> String {
        let mut d = match WebPDecoder::new(Cursor::new(f.clone())) {
            Ok(d) => d,
            Err(e) => return format!("NEWERR {}", err_name(&e)),
        };
        let (w, h) = d.dimensions();
        let mut s = format!("{} {} {} {}", w, h, b(d.has_alpha()), b(d.is_animated()));
        if !d.is_animated() {
            return s + " | PANIC assert";
        }
        let (table, first) = d.verif_chunk_table();
        let first = table.iter().find(|c| &c.0 == b"ANMF").map(|c| c.1 - 8).unwrap_or(first);
        let mut pos = first;
        let mut buf = vec![fill; d.output_buffer_size().unwrap_or(0)];
        for op in ops.chars() {
            match op {
                'F' => {
                    let walk = frame_vp8_payload(&f, pos);
                    match d.read_frame(&mut buf) {
                        Ok(dur) => {
                            s += &format!(" | F OK {} {}", dur, pixels(w, h, &buf));
                            pos = walk.map(|x| x.0 + x.1 + 8).unwrap_or(pos);
                        }
                        Err(e) => {
                            let name = err_name(&e);
                            let name = if name == "NoMoreFrames" { name } else { label(name, walk.and_then(|x| x.2).as_deref()) };
                            s += &format!(" | F ERR {} {}", name, pixels(w, h, &buf));
                        }
                    }
                }
                'R' => {
                    d.reset_animation();
                    pos = first;
                    s += " | R";
                }
                'I' => match d.read_image(&mut buf) {
                    Ok(()) => s += &format!(" | I OK {}", pixels(w, h, &buf)),
                    Err(e) => {
                        let name = label(err_name(&e), frame_vp8_payload(&f, first).and_then(|x| x.2).as_deref());
                        s += &format!(" | I ERR {} {}", name, pixels(w, h, &buf));
                    }
                },
                _ => {
                    buf.iter_mut().for_each(|x| *x = fill);
                    s += " | S";
                }
            }
        }
        s
    });
    match r {
        Ok(x) => x,
        Err(m) => format!("PANIC {}", m.replace('\n', " ")),
    }
}

// ------------------------------------------------------------------------------------------------
struct Cx {
    out: Out,
    feat: Features,
    violations: Vec<String>,
    evaluations: u64,
    max_px: u64,
    observations: Vec<String>,
}

impl Cx {
    fn viol(&mut self, s: String) {
        if self.violations.len() < 20 {
            self.violations.push(s);
        }
    }

    /// canvas of the file as the crate sees it (None: `new` fails -- still emitted, the model must agree on the error)
    fn too_large(&mut self, file: &[u8]) -> bool {
        let f = file.to_vec();
        let dims = catch(move || WebPDecoder::new(Cursor::new(f)).ok().map(|d| d.dimensions())).ok().flatten();
        match dims {
            Some((w, h)) if (w as u64) * (h as u64) > self.max_px => {
                self.feat.inc("skipped.canvas_above_limit");
                true
            }
            _ => false,
        }
    }

    fn account(&mut self, class: &str, line: &str) {
        let ws: Vec<&str> = line.split(' ').collect();
        let kind = match ws[0] {
            "OK" => "ok".to_string(),
            "ERR" | "NEWERR" => format!("{}.{}", ws[0].to_lowercase(), ws.get(1).unwrap_or(&"")),
            "PANIC" => "panic".to_string(),
            _ => {
                // frames trace: classify by its last item
                let last = line.rsplit(" | ").next().unwrap_or("");
                let lw: Vec<&str> = last.split(' ').collect();
                match lw[0] {
                    "OK" => "frames.all_ok".to_string(),
                    "ERR" => format!("frames.err.{}", lw.get(1).unwrap_or(&"")),
                    _ => "frames.other".to_string(),
                }
            }
        };
        self.feat.inc(&format!("class.{class}.inputs"));
        self.feat.inc(&format!("class.{class}.{kind}"));
        self.feat.inc(&format!("result.{kind}"));
        if line.starts_with("PANIC") || line.contains("| PANIC") {
            let l = line.chars().take(200).collect::<String>();
            self.viol(format!("[{class}] implementation panics: {l}"));
        }
    }

    fn still(&mut self, class: &str, file: &[u8], buflen: Option<usize>) -> String {
        if self.too_large(file) {
            return String::new();
        }
        self.evaluations += 1;
        let (n, line) = still_impl(file, buflen, FILL);
        let case = format!("rimg still {} {} {}", n, FILL, hex(file));
        self.out.case(&case, &line);
        self.account(class, &line);
        if buflen.is_some() && line.starts_with("OK") {
            // a deliberately wrong length was accepted?
            let f = file.to_vec();
            let exact = catch(move || WebPDecoder::new(Cursor::new(f)).ok().and_then(|d| d.output_buffer_size())).ok().flatten();
            if exact != Some(n) {
                self.viol(format!("{case} : read_image accepted a buffer of {n} bytes (output_buffer_size = {exact:?})"));
            }
        }
        if buflen.is_some() && line.starts_with("ERR ImageTooLarge") && !line.ends_with("buf=same") {
            self.viol(format!("{case} : wrong-length buffer was modified"));
        }
        line
    }

    fn frames(&mut self, class: &str, file: &[u8], n: usize) -> String {
        if self.too_large(file) {
            return String::new();
        }
        self.evaluations += 1;
        let line = frames_impl(file, n, FILL);
        let case = format!("rimg frames {} {} {}", n, FILL, hex(file));
        self.out.case(&case, &line);
        self.account(class, &line);
        line
    }

    /// native decision: the crate plays as many frames as libwebp's WebPAnimDecoder (chunks between the frames are stepped over)
    fn against_libwebp_frames(&mut self, class: &str, file: &[u8]) {
        let line = frames_impl(file, 16, FILL);
        let crate_frames = line.matches("| OK").count();
        match libwebp_anim_frames(file) {
            Some(n) if n != crate_frames => {
                self.feat.inc(&format!("libwebp_frames.{class}.differs"));
                self.viol(format!("rimg frames 16 {} {} : libwebp plays {} frames, the crate {} ({}) [{}]", FILL, hex(file), n, crate_frames, line.rsplit(" | ").next().unwrap_or(""), class));
            }
            Some(_) => self.feat.inc(&format!("libwebp_frames.{class}.same_count")),
            None => self.feat.inc(&format!("libwebp_frames.{class}.libwebp_rejects")),
        }
    }

    /// a call sequence on an animation; native decision: C07's cursor machine over what a fresh decoder plays
    fn ops(&mut self, class: &str, file: &[u8], ops: &str) {
        if self.too_large(file) {
            return;
        }
        self.evaluations += 1;
        let line = ops_impl(file, ops, FILL);
        let case = format!("rimg ops {} {} {}", ops, FILL, hex(file));
        self.out.case(&case, &line);
        let items: Vec<&str> = line.split(" | ").collect();
        let bad = items.iter().any(|i| i.contains("PANIC"));
        self.feat.inc(&format!("class.{class}.inputs"));
        self.feat.inc(&format!("class.{class}.{}", if line.starts_with("NEWERR") { "newerr" } else if bad { "panic" } else if items.iter().any(|i| i.contains(" ERR ") && !i.contains("NoMoreFrames")) { "some_error" } else { "all_ok_or_exhausted" }));
        self.feat.add("ops.calls", ops.len() as u64);
        for c in ops.chars() {
            self.feat.inc(&format!("ops.op.{c}"));
        }
        if bad {
            self.viol(format!("[{class}] implementation panics: {}", line.chars().take(200).collect::<String>()));
        }
        // the cursor machine (only when a fresh decoder plays every frame): F delivers frame `cursor` of a fresh playback or NoMoreFrames
        // with the buffer untouched, R rewinds, I delivers frame 0 and keeps the cursor, S refills
        if items.len() != ops.len() + 1 || line.starts_with("NEWERR") {
            return;
        }
        let f2 = file.to_vec();
        let nf = catch(move || WebPDecoder::new(Cursor::new(f2)).ok().map(|d| d.num_frames())).ok().flatten().unwrap_or(0) as usize;
        let fresh = frames_impl(file, nf, FILL);
        let shown: Vec<&str> = fresh.split(" | ").skip(1).collect();
        if shown.len() != nf || shown.iter().any(|x| !x.starts_with("OK ")) {
            return;
        }
        let hd: Vec<u64> = items[0].split(' ').filter_map(|x| x.parse().ok()).collect();
        if hd.len() != 4 {
            return;
        }
        let fill_px = pixels(hd[0] as u32, hd[1] as u32, &vec![FILL; (hd[0] * hd[1] * if hd[2] == 1 { 4 } else { 3 }) as usize]);
        let px_of = |item: &str| item[item.rfind(' ').unwrap() + 1..].to_string();
        let (mut cursor, mut cur) = (0usize, fill_px.clone());
        for (k, (op, item)) in ops.chars().zip(items.iter().skip(1)).enumerate() {
            let expect = match op {
                'F' if cursor < nf => {
                    cur = px_of(shown[cursor]);
                    cursor += 1;
                    format!("F {}", shown[cursor - 1])
                }
                'F' => format!("F ERR NoMoreFrames {}", cur),
                'R' => {
                    cursor = 0;
                    "R".to_string()
                }
                'I' => {
                    cur = px_of(shown[0]);
                    format!("I OK {}", cur)
                }
                _ => {
                    cur = fill_px.clone();
                    "S".to_string()
                }
            };
            if *item != expect {
                self.viol(format!("{case} : call {k} ({op}) gives `{}` but the playback cursor gives `{}`", item.chars().take(80).collect::<String>(), expect.chars().take(80).collect::<String>()));
                break;
            }
        }
    }

    /// an animation: all frames plus one more call (NoMoreFrames), and read_image (= first frame)
    fn animation(&mut self, class: &str, file: &[u8]) {
        let f = file.to_vec();
        let nf = catch(move || WebPDecoder::new(Cursor::new(f)).ok().map(|d| d.num_frames())).ok().flatten().unwrap_or(0) as usize;
        let line = self.frames(class, file, nf.min(12) + 1);
        if nf <= 12 && !line.is_empty() && !line.starts_with("NEWERR") && line.matches("| OK").count() == nf && !line.ends_with("| ERR NoMoreFrames") {
            self.viol(format!("[{class}] no NoMoreFrames after the last frame: {}", line.chars().take(120).collect::<String>()));
        }
        self.still(&format!("{class}.read_image"), file, None);
    }
}

// ------------------------------------------------------------------------------------------------
// byte-level builders (size fields can be overridden)
// ------------------------------------------------------------------------------------------------
fn chunk_sized(cc: &[u8; 4], declared: u32, payload: &[u8]) -> Vec<u8> {
    let mut v = cc.to_vec();
    v.extend_from_slice(&declared.to_le_bytes());
    v.extend_from_slice(payload);
    if payload.len() & 1 == 1 {
        v.push(0);
    }
    v
}

fn u24(v: u32) -> [u8; 3] {
    [v as u8, (v >> 8) as u8, (v >> 16) as u8]
}

/// ANMF payload: header fields as stored + the sub-chunk bytes
fn anmf_payload(xh: u32, yh: u32, w1: u32, h1: u32, dur: u32, flags: u8, body: &[u8]) -> Vec<u8> {
    let mut p = vec![];
    p.extend_from_slice(&u24(xh));
    p.extend_from_slice(&u24(yh));
    p.extend_from_slice(&u24(w1));
    p.extend_from_slice(&u24(h1));
    p.extend_from_slice(&u24(dur));
    p.push(flags);
    p.extend_from_slice(body);
    p
}

/// VP8X(animation [+alpha]) + ANIM + the given top-level chunk bytes
fn anim_file(cw: u32, ch: u32, alpha: bool, bg: [u8; 4], chunks: &[Vec<u8>]) -> Vec<u8> {
    let mut body = rw::vp8x(0x02 | if alpha { 0x10 } else { 0 }, cw as usize, ch as usize);
    let mut anim = bg.to_vec();
    anim.extend_from_slice(&0u16.to_le_bytes());
    body.extend_from_slice(&rw::chunk(b"ANIM", &anim));
    for c in chunks {
        body.extend_from_slice(c);
    }
    rw::riff(&body)
}

fn sub_chunks(cs: &[mux::Chunk]) -> Vec<u8> {
    let mut v = vec![];
    for (cc, p) in cs {
        v.extend_from_slice(&rw::chunk(cc, p));
    }
    v
}

fn pick_dims(rng: &mut Rng, max: u64) -> (usize, usize) {
    let special = [1usize, 2, 3, 15, 16, 17, 33];
    if rng.chance(1, 2) {
        (*rng.pick(&special), *rng.pick(&special))
    } else {
        (rng.range(1, max) as usize, rng.range(1, max) as usize)
    }
}

/// a `VP8 ` payload of the given size: libwebp encoding of a synthetic image, or a frame written by gen_vp8
fn vp8_payload(rng: &mut Rng, w: usize, h: usize, feat: &mut Features) -> Option<Vec<u8>> {
    if rng.chance(3, 10) {
        let opts = GenOpts { max_dim: 80, wide_pct: 0, lf_ambiguous_pct: 0, colorspace_pct: 0 };
        let (spec, _, _) = gen_vp8::random_spec_sized(rng, &opts, w as u16, h as u16);
        feat.inc("vp8_source.gen_vp8");
        Some(gen_vp8::write_frame(&spec).payload)
    } else {
        let (f, _) = c02::random_libwebp_encoding(rng, w, h, false)?;
        feat.inc("vp8_source.libwebp");
        rw::vp8_payloads(&f).into_iter().next()
    }
}

fn vp8l_payload(rng: &mut Rng, w: usize, h: usize, feat: &mut Features) -> Option<Vec<u8>> {
    let (st, am) = (rng.below(5), rng.below(4));
    let img = corpus::synth_rgba(rng, w as u32, h as u32, st, am);
    let f = lw::encode_lossless_rgba(&img, w as u32, h as u32);
    feat.inc("vp8l_source.libwebp");
    mux::image_chunks(&f).into_iter().find(|c| &c.0 == b"VP8L").map(|c| c.1)
}

fn size_class(w: usize) -> &'static str {
    if w <= 3 { "1-3" } else if w < 16 { "4-15" } else if w <= 17 { "16-17" } else if w <= 40 { "18-40" } else { "41+" }
}

pub fn run(tier: &str, seed: u64, outdir: &str, extra: &[String]) {
    let thorough = tier == "thorough";
    let mut cx = Cx {
        out: Out::new(outdir),
        feat: Features::default(),
        violations: vec![],
        evaluations: 0,
        max_px: if thorough { 128 * 128 } else { 64 * 64 },
        observations: vec![],
    };
    let mut rng = Rng::new(seed ^ 0x71AE);

    if tier == "replay" {
        cx.max_px = u64::MAX;
        let text = std::fs::read_to_string(&extra[0]).unwrap_or_default();
        for l in text.lines() {
            let w: Vec<&str> = l.split_whitespace().collect();
            if w.len() == 5 && w[0] == "rimg" && w[1] == "still" {
                cx.still("replay", &unhex(w[4]), w[2].parse::<usize>().ok());
            } else if w.len() == 5 && w[0] == "rimg" && w[1] == "frames" {
                cx.frames("replay", &unhex(w[4]), w[2].parse::<usize>().unwrap_or(1));
            } else if w.len() == 5 && w[0] == "rimg" && w[1] == "ops" {
                cx.ops("replay", &unhex(w[4]), w[2]);
            }
        }
    } else {
        let maxd: u64 = if thorough { 64 } else { 40 };
        let rounds: u64 = if thorough { 10 } else { 2 };

        // ---- (A) the shared corpus ----
        let mut c_rng = Rng::new(seed);
        let items = corpus::standard(&mut c_rng, tier);
        let mut sample_files: Vec<Vec<u8>> = vec![];
        for it in &items {
            if it.kind == "animated" {
                cx.animation("corpus.animated", &it.bytes);
            } else {
                let l = cx.still(&format!("corpus.{}", it.kind), &it.bytes, None);
                if l.starts_with("OK") && sample_files.len() < 400 {
                    sample_files.push(it.bytes.clone());
                }
            }
        }

        for round in 0..rounds {
            // ---- (B) every ALPH variant: still, single ANMF frame, inside a multi-frame animation ----
            for filter in 0..4u8 {
                for compressed in [false, true] {
                    for preproc in 0..2u8 {
                        for k in 0..3 {
                            let mut r = rng.fork();
                            let (w, h) = if round == 0 && k == 0 {
                                ([1usize, 2, 3, 1][filter as usize], [1usize, 1, 2, 17][(preproc * 2 + compressed as u8) as usize])
                            } else {
                                pick_dims(&mut r, maxd)
                            };
                            let Some(vp8) = vp8_payload(&mut r, w, h, &mut cx.feat) else { continue };
                            let (a, kind) = c05::alpha_content(&mut r, w, h);
                            let Some(alph) = c05::alph_payload(&mut r, &a, w, h, filter, compressed, preproc) else {
                                cx.feat.inc("alpha_encoder_failed");
                                continue;
                            };
                            cx.feat.inc(&format!("alph_header.filter{}_{}_pre{}", filter, if compressed { "vp8l" } else { "raw" }, preproc));
                            cx.feat.inc(&format!("alpha_content.{kind}"));
                            cx.feat.inc(&format!("size.w{}", size_class(w)));
                            cx.feat.inc(&format!("size.parity.w{}h{}", w % 2, h % 2));
                            let still = rw::extended_vp8(rw::VP8X_ALPHA, w, h, Some(&alph), &vp8, &[]);
                            cx.still("alph.still", &still, None);
                            if sample_files.len() < 400 {
                                sample_files.push(still);
                            }
                            let ic: Vec<mux::Chunk> = vec![(*b"ALPH", alph.clone()), (*b"VP8 ", vp8.clone())];
                            // a single full-canvas frame, do-not-blend
                            let fr = mux::Frame { x: 0, y: 0, w: w as u32, h: h as u32, duration: 40, blend: false, dispose: false, chunks: ic.clone() };
                            cx.animation("alph.single_anmf", &mux::animation(w as u32, h as u32, true, [1, 2, 3, 4], 0, &[fr]));
                            if k == 0 {
                                // inside a larger canvas, between a lossless and a lossy frame
                                let (cw, ch) = (w as u32 + 2 * r.below(3) as u32, h as u32 + 2 * r.below(3) as u32);
                                let mut frames = vec![];
                                if let Some(l) = vp8l_payload(&mut r, cw as usize, ch as usize, &mut cx.feat) {
                                    frames.push(mux::Frame { x: 0, y: 0, w: cw, h: ch, duration: 10, blend: false, dispose: r.chance(1, 2), chunks: vec![(*b"VP8L", l)] });
                                }
                                let (ox, oy) = ((cw - w as u32) & !1, (ch - h as u32) & !1);
                                frames.push(mux::Frame { x: ox, y: oy, w: w as u32, h: h as u32, duration: 20, blend: r.chance(1, 2), dispose: r.chance(1, 2), chunks: ic.clone() });
                                frames.push(mux::Frame { x: 0, y: 0, w: w as u32, h: h as u32, duration: 30, blend: r.chance(1, 2), dispose: false, chunks: vec![(*b"VP8 ", vp8.clone())] });
                                let bg = [r.byte(), r.byte(), r.byte(), r.byte()];
                                cx.animation("alph.multi_anmf", &mux::animation(cw, ch, r.chance(2, 3), bg, 0, &frames));
                            }
                        }
                    }
                }
            }

            // ---- (C) every wrapping of a VP8 / VP8L payload; container variants without transparency data ----
            for i in 0..(if thorough { 16 } else { 10 }) {
                let mut r = rng.fork();
                let (w, h) = pick_dims(&mut r, maxd);
                let lossless = i % 2 == 1;
                let payload = if lossless { vp8l_payload(&mut r, w, h, &mut cx.feat) } else { vp8_payload(&mut r, w, h, &mut cx.feat) };
                let Some(p) = payload else { continue };
                let cc: [u8; 4] = if lossless { *b"VP8L" } else { *b"VP8 " };
                let kind = if lossless { "vp8l" } else { "vp8" };
                cx.still(&format!("wrap.{kind}.simple"), &mux::riff(&[(cc, p.clone())]), None);
                for f in [false, true] {
                    let chunks = vec![mux::vp8x(if f { mux::FLAG_ALPHA } else { 0 }, w as u32, h as u32), (cc, p.clone())];
                    cx.still(&format!("wrap.{kind}.vp8x_alpha{}", f as u8), &mux::riff(&chunks), None);
                    let fr = mux::Frame { x: 0, y: 0, w: w as u32, h: h as u32, duration: 40, blend: false, dispose: false, chunks: vec![(cc, p.clone())] };
                    cx.animation(&format!("wrap.{kind}.anmf_alpha{}", f as u8), &mux::animation(w as u32, h as u32, f, [9, 8, 7, 6], 0, &[fr]));
                }
                if !lossless {
                    // ALPH chunk present, alpha flag clear: RGB output, the chunk is ignored
                    let (a, _) = c05::alpha_content(&mut r, w, h);
                    let (fl, cmp) = (r.below(4) as u8, r.chance(1, 2));
                    if let Some(alph) = c05::alph_payload(&mut r, &a, w, h, fl, cmp, 0) {
                        cx.still("wrap.vp8.vp8x_alph_without_flag", &rw::extended_vp8(0, w, h, Some(&alph), &p, &[]), None);
                        // ALPH after the VP8 chunk (order is free for the chunk table)
                        let chunks = vec![mux::vp8x(mux::FLAG_ALPHA, w as u32, h as u32), (cc, p.clone()), (*b"ALPH", alph.clone())];
                        cx.still("wrap.vp8.vp8x_alph_after_vp8", &mux::riff(&chunks), None);
                    }
                    if p.len() >= 10 {
                        let mut v2 = p.clone();
                        v2[7] |= (1 + r.below(3) as u8) << 6;
                        v2[9] |= (r.below(4) as u8) << 6;
                        cx.still("wrap.vp8.simple_scale_bits", &rw::simple_vp8(&v2), None);
                        cx.still("wrap.vp8.vp8x_scale_bits", &rw::extended_vp8(rw::VP8X_ALPHA, w, h, None, &v2, &[]), None);
                    }
                    let extra = vec![rw::chunk(b"EXIF", &r.bytes(7)), rw::chunk(b"UNKN", &r.bytes(3))];
                    cx.still("wrap.vp8.vp8x_metadata", &rw::extended_vp8(0x08, w, h, None, &p, &extra), None);
                }
            }

            // ---- (D) frame / canvas size mismatches ----
            for i in 0..(if thorough { 12 } else { 8 }) {
                let mut r = rng.fork();
                let (w, h) = pick_dims(&mut r, maxd.min(24));
                let (dw, dh): (i64, i64) = *r.pick(&[(1, 0), (0, 1), (-1, 0), (0, -1), (1, 1), (2, -1)]);
                let (cw, ch) = ((w as i64 + dw).max(1) as u32, (h as i64 + dh).max(1) as u32);
                if (cw as usize, ch as usize) == (w, h) {
                    continue;
                }
                let Some(vp8) = vp8_payload(&mut r, w, h, &mut cx.feat) else { continue };
                let Some(vp8l) = vp8l_payload(&mut r, w, h, &mut cx.feat) else { continue };
                let (a, _) = c05::alpha_content(&mut r, w, h);
                let fl0 = r.below(4) as u8;
                let alph = c05::alph_payload(&mut r, &a, w, h, fl0, false, 0).unwrap();
                let af = i % 2 == 0;
                cx.still("mismatch.vp8x_canvas_vs_vp8", &rw::extended_vp8(if af { rw::VP8X_ALPHA } else { 0 }, cw as usize, ch as usize, None, &vp8, &[]), None);
                cx.still("mismatch.vp8x_canvas_vs_alph_vp8", &rw::extended_vp8(rw::VP8X_ALPHA, cw as usize, ch as usize, Some(&alph), &vp8, &[]), None);
                cx.still("mismatch.vp8x_canvas_vs_vp8l", &mux::riff(&[mux::vp8x(if af { mux::FLAG_ALPHA } else { 0 }, cw, ch), (*b"VP8L", vp8l.clone())]), None);
                // ANMF frame whose declared size differs from its bit-stream (canvas large enough for both)
                let (bw, bh) = (cw.max(w as u32) + 2, ch.max(h as u32) + 2);
                for (name, body) in [
                    ("vp8", sub_chunks(&[(*b"VP8 ", vp8.clone())])),
                    ("vp8l", sub_chunks(&[(*b"VP8L", vp8l.clone())])),
                    ("alph_vp8", sub_chunks(&[(*b"ALPH", alph.clone()), (*b"VP8 ", vp8.clone())])),
                ] {
                    let p = anmf_payload(0, 0, cw - 1, ch - 1, 50, 2, &body);
                    cx.animation(&format!("mismatch.anmf_size_vs_{name}"), &anim_file(bw, bh, af, [0, 0, 0, 0], &[rw::chunk(b"ANMF", &p)]));
                }
                // frame outside the canvas; frame wider than 16384
                let p = anmf_payload(1 + r.below(3) as u32, 0, w as u32 - 1, h as u32 - 1, 50, 0, &sub_chunks(&[(*b"VP8L", vp8l.clone())]));
                cx.animation("mismatch.anmf_outside_canvas", &anim_file(w as u32 + 1, h as u32, af, [0, 0, 0, 0], &[rw::chunk(b"ANMF", &p)]));
                if i < 2 {
                    let p = anmf_payload(0, 0, 16384, 0, 50, 0, &sub_chunks(&[(*b"VP8L", vp8l.clone())]));
                    cx.animation("mismatch.anmf_wider_than_16384", &anim_file(w as u32, h as u32, af, [0, 0, 0, 0], &[rw::chunk(b"ANMF", &p)]));
                }
            }

            // ---- (E) damaged ALPH chunks ----
            for i in 0..(if thorough { 12 } else { 8 }) {
                let mut r = rng.fork();
                let (w, h) = pick_dims(&mut r, maxd.min(24));
                let Some(vp8) = vp8_payload(&mut r, w, h, &mut cx.feat) else { continue };
                let (a, _) = c05::alpha_content(&mut r, w, h);
                let filter = (i % 4) as u8;
                let raw = c05::alph_payload(&mut r, &a, w, h, filter, false, 0).unwrap();
                let raw = raw[..1 + w * h].to_vec();
                let comp = c05::alph_payload(&mut r, &a, w, h, filter, true, 0);
                let mut variants: Vec<(&str, Vec<u8>)> = vec![
                    ("empty", vec![]),
                    ("header_only", raw[..1].to_vec()),
                    ("raw_one_short", raw[..raw.len() - 1].to_vec()),
                    ("raw_half", raw[..1 + (w * h) / 2].to_vec()),
                    ("raw_trailing_bytes", [raw.clone(), r.bytes(3)].concat()),
                    ("preprocessing_2", { let mut x = raw.clone(); x[0] |= 2 << 4; x }),
                    ("preprocessing_3", { let mut x = raw.clone(); x[0] |= 3 << 4; x }),
                    ("compression_2", { let mut x = raw.clone(); x[0] = (x[0] & !3) | 2; x }),
                    ("compression_3", { let mut x = raw.clone(); x[0] |= 3; x }),
                    ("reserved_bits", { let mut x = raw.clone(); x[0] |= (1 + r.below(3) as u8) << 6; x }),
                    ("raw_marked_compressed", { let mut x = raw.clone(); x[0] |= 1; x }),
                ];
                if let Some(c) = &comp {
                    variants.push(("vp8l_truncated", c[..1 + (c.len() - 1) / 2].to_vec()));
                    variants.push(("vp8l_header_only", c[..c.len().min(3)].to_vec()));
                    variants.push(("vp8l_marked_raw", { let mut x = c.clone(); x[0] &= !3; x }));
                    variants.push(("vp8l_bitflip", { let mut x = c.clone(); let k = 1 + r.below((x.len() - 1) as u64) as usize; x[k] ^= 1 << r.below(8); x }));
                }
                for (name, al) in &variants {
                    cx.still(&format!("badalph.still.{name}"), &rw::extended_vp8(rw::VP8X_ALPHA, w, h, Some(al), &vp8, &[]), None);
                    if i % 2 == 0 {
                        let fr = mux::Frame { x: 0, y: 0, w: w as u32, h: h as u32, duration: 40, blend: false, dispose: false, chunks: vec![(*b"ALPH", al.clone()), (*b"VP8 ", vp8.clone())] };
                        cx.animation(&format!("badalph.anmf.{name}"), &mux::animation(w as u32, h as u32, true, [1, 2, 3, 4], 0, &[fr]));
                    }
                }
                // the file ends inside the ALPH chunk (the chunk table still registers its range)
                let chunks = vec![mux::vp8x(mux::FLAG_ALPHA, w as u32, h as u32), (*b"VP8 ", vp8.clone()), (*b"ALPH", raw.clone())];
                let alph_last = mux::riff(&chunks);
                let cut = alph_last.len() - 1 - (raw.len() / 2);
                cx.still("badalph.still.file_ends_in_alph", &alph_last[..cut], None);
            }

            // ---- (F) ANMF size-field surgery and sub-chunk structure ----
            for i in 0..(if thorough { 10 } else { 6 }) {
                let mut r = rng.fork();
                let (w, h) = pick_dims(&mut r, maxd.min(24));
                let Some(vp8) = vp8_payload(&mut r, w, h, &mut cx.feat) else { continue };
                let Some(vp8l) = vp8l_payload(&mut r, w, h, &mut cx.feat) else { continue };
                let (a, _) = c05::alpha_content(&mut r, w, h);
                // an odd-length raw ALPH payload exercises the pad byte before the VP8 chunk
                let fl0 = r.below(4) as u8;
                let mut alph = c05::alph_payload(&mut r, &a, w, h, fl0, false, 0).unwrap()[..1 + w * h].to_vec();
                if alph.len() % 2 == 0 {
                    alph.push(r.byte());
                }
                let (w1, h1) = (w as u32 - 1, h as u32 - 1);
                let file_of = |chunks: &[Vec<u8>]| anim_file(w as u32, h as u32, true, [5, 6, 7, 8], chunks);
                let bodies: Vec<(&str, Vec<u8>)> = vec![
                    ("vp8", sub_chunks(&[(*b"VP8 ", vp8.clone())])),
                    ("vp8l", sub_chunks(&[(*b"VP8L", vp8l.clone())])),
                    ("alph_vp8", sub_chunks(&[(*b"ALPH", alph.clone()), (*b"VP8 ", vp8.clone())])),
                ];
                for (name, body) in &bodies {
                    let p = anmf_payload(0, 0, w1, h1, 70, 2, body);
                    let n = p.len() as u32;
                    // declared ANMF size: exact, smaller than the sub-chunks need, minimal, larger than the data
                    for (sn, declared) in [("exact", n), ("minus2", n - 2), ("minus8", n.saturating_sub(8)), ("is24", 24), ("is31", 31), ("is32", 32), ("plus64", n + 64)] {
                        cx.animation(&format!("anmfsize.{name}.{sn}"), &file_of(&[chunk_sized(b"ANMF", declared, &p)]));
                    }
                    // two frames: the second one is found at next_frame_start + anmf_size + 8
                    if i % 2 == 0 {
                        let p2 = anmf_payload(0, 0, w1, h1, 80, 3, &bodies[(i as usize / 2) % 3].1);
                        cx.animation(&format!("anmfsize.{name}.two_frames"), &file_of(&[rw::chunk(b"ANMF", &p), rw::chunk(b"ANMF", &p2)]));
                        // an unknown chunk between the two frames: read_frame expects the next ANMF right after the first
                        let uf = file_of(&[rw::chunk(b"ANMF", &p), rw::chunk(b"UNKN", &r.bytes(4)), rw::chunk(b"ANMF", &p2)]);
                        cx.animation(&format!("anmfsize.{name}.unknown_chunk_between_frames"), &uf);
                        cx.against_libwebp_frames("anmfsize.unknown_chunk_between_frames", &uf);
                    }
                }
                // sub-chunk size fields
                let vp8c = |declared: u32| chunk_sized(b"VP8 ", declared, &vp8);
                let n8 = vp8.len() as u32;
                // a VP8 chunk cut in the middle: only when the crate's own VP8 decoder rejects the cut payload (a frame whose token
                // partitions are cut away but never read is accepted by the crate and rejected by libwebp / Spec.VP8: documented
                // non-defect (f) of DESIGN.md section 0.2, a matter of the VP8 decoder, not of the glue)
                let half_ok = vp8_standalone(&vp8[..(n8 / 2) as usize]).is_some();
                if !half_ok {
                    cx.feat.inc("skipped.cut_vp8_accepted_by_crate");
                }
                for (sn, body) in [
                    ("vp8_size_plus2", vp8c(n8 + 2)),
                    ("vp8_size_huge", vp8c(0x7fff_fff0)),
                    ("vp8_size_max", vp8c(0xffff_ffff)),
                    ("vp8_size_half", if half_ok { vp8c(n8 / 2) } else { vp8c(n8) }),
                    ("alph_size_plus2", [chunk_sized(b"ALPH", alph.len() as u32 + 2, &alph), rw::chunk(b"VP8 ", &vp8)].concat()),
                    ("alph_size_huge", [chunk_sized(b"ALPH", 0xffff_fff0, &alph), rw::chunk(b"VP8 ", &vp8)].concat()),
                    ("alph_then_vp8_size_plus4", [rw::chunk(b"ALPH", &alph), vp8c(n8 + 4)].concat()),
                    ("alph_then_unknown_fourcc", [rw::chunk(b"ALPH", &alph), rw::chunk(b"XYZW", &vp8)].concat()),
                    ("alph_then_vp8l", [rw::chunk(b"ALPH", &alph), rw::chunk(b"VP8L", &vp8l)].concat()),
                    ("alph_alone", rw::chunk(b"ALPH", &alph)),
                    ("unknown_first", [rw::chunk(b"UNKN", &r.bytes(2)), rw::chunk(b"VP8 ", &vp8)].concat()),
                    ("vp8l_then_unknown", [rw::chunk(b"VP8L", &vp8l), rw::chunk(b"UNKN", &r.bytes(5))].concat()),
                    ("no_subchunk", vec![]),
                ] {
                    let p = anmf_payload(0, 0, w1, h1, 70, 2, &body);
                    cx.animation(&format!("subchunk.{sn}"), &file_of(&[rw::chunk(b"ANMF", &p)]));
                }
                // the file ends inside the frame
                let p = anmf_payload(0, 0, w1, h1, 70, 2, &bodies[i as usize % 3].1);
                let whole = file_of(&[rw::chunk(b"ANMF", &p)]);
                for cut in [whole.len() - 3, whole.len() - p.len() / 2, whole.len() - p.len() + 10, whole.len() - p.len() + 20] {
                    let cutf = &whole[..cut.min(whole.len())];
                    // the ANMF header of the only frame is at offset 44 (RIFF 12 + VP8X 18 + ANIM 14)
                    let (pw, pc) = (frame_vp8_payload(&whole, 44).and_then(|x| x.2), frame_vp8_payload(cutf, 44).and_then(|x| x.2));
                    if let (Some(pw), Some(pc)) = (&pw, &pc) {
                        if pw != pc && vp8_standalone(pc).is_none() {
                            // cut VP8 payload still accepted by the crate's VP8 decoder (unused trailing partitions): see above
                            cx.feat.inc("skipped.cut_vp8_accepted_by_crate");
                            continue;
                        }
                    }
                    cx.animation("truncated.anmf", cutf);
                }
            }

            // ---- (G) truncated / damaged bit-streams of stills ----
            for i in 0..(if thorough { 10 } else { 6 }) {
                let mut r = rng.fork();
                let (w, h) = pick_dims(&mut r, maxd.min(24));
                if i % 2 == 0 {
                    let Some(p) = vp8l_payload(&mut r, w, h, &mut cx.feat) else { continue };
                    for alpha in [false, true] {
                        // the alpha_is_used bit of the VP8L header decides RGB / RGBA for the simple file
                        let mut q = p.clone();
                        if alpha { q[4] |= 0x10 } else { q[4] &= !0x10 }
                        let cut = 5 + r.below((q.len() - 5).max(1) as u64) as usize;
                        cx.still(&format!("damaged.vp8l_truncated_alpha{}", alpha as u8), &mux::riff(&[(*b"VP8L", q[..cut].to_vec())]), None);
                        let mut f = q.clone();
                        let k = 5 + r.below((f.len() - 5).max(1) as u64) as usize;
                        if k < f.len() { f[k] ^= 1 << r.below(8); }
                        cx.still(&format!("damaged.vp8l_bitflip_alpha{}", alpha as u8), &mux::riff(&[(*b"VP8L", f)]), None);
                    }
                } else {
                    let Some(p) = vp8_payload(&mut r, w, h, &mut cx.feat) else { continue };
                    for cut in [10usize, 11, 10 + (p.len() - 10) / 2] {
                        // the chunk size field still announces the whole payload: the file ends early
                        let whole = rw::simple_vp8(&p);
                        if vp8_standalone(&p[..cut.min(p.len())]).is_some() {
                            cx.still("damaged.vp8_file_ends_early", &whole[..(20 + cut).min(whole.len())], None);
                        } else {
                            cx.feat.inc("skipped.cut_vp8_accepted_by_crate");
                        }
                    }
                    let cutp = &p[..10 + (p.len() - 10) / 3];
                    if vp8_standalone(cutp).is_some() {
                        cx.still("damaged.vp8_chunk_truncated", &rw::extended_vp8(rw::VP8X_ALPHA, w, h, None, cutp, &[]), None);
                    } else {
                        cx.feat.inc("skipped.cut_vp8_accepted_by_crate");
                    }
                }
            }
        }

        // ---- (I) animations with 1..3 unknown / metadata chunks between (and around) the ANMF chunks ----
        for i in 0..(if thorough { 60 } else { 16 }) {
            let mut r = rng.fork();
            let (cw, ch) = pick_dims(&mut r, maxd.min(24));
            let nframes = 2 + r.below(3) as usize;
            let mut top: Vec<Vec<u8>> = vec![];
            let mut flags = 0x02u8 | if r.chance(1, 2) { 0x10 } else { 0 };
            let mut gap = |r: &mut Rng, top: &mut Vec<Vec<u8>>, flags: &mut u8, n: u64, feat: &mut Features| {
                for _ in 0..n {
                    let k = r.below(9) as usize; // odd and even payload lengths, empty payloads
                    match r.below(4) {
                        0 => { top.push(rw::chunk(b"EXIF", &r.bytes(k))); *flags |= 0x08; feat.inc("between_frames.chunk.EXIF"); }
                        1 => { top.push(rw::chunk(b"XMP ", &r.bytes(k))); *flags |= 0x04; feat.inc("between_frames.chunk.XMP"); }
                        2 => { top.push(rw::chunk(b"ICCP", &r.bytes(k))); *flags |= 0x20; feat.inc("between_frames.chunk.ICCP"); }
                        _ => { top.push(rw::chunk(&[b'u', b'n', b'k', b'0' + (k as u8)], &r.bytes(k))); feat.inc("between_frames.chunk.unknown"); }
                    }
                }
            };
            let before = r.below(3);
            gap(&mut r, &mut top, &mut flags, before, &mut cx.feat);
            let mut ok = true;
            for fi in 0..nframes {
                let (fw, fh) = (1 + r.below(cw as u64) as usize, 1 + r.below(ch as u64) as usize);
                let (ox, oy) = (((cw - fw) as u32 / 2) & !1, ((ch - fh) as u32 / 2) & !1);
                let body = match (i + fi) % 3 {
                    0 => vp8l_payload(&mut r, fw, fh, &mut cx.feat).map(|p| sub_chunks(&[(*b"VP8L", p)])),
                    1 => vp8_payload(&mut r, fw, fh, &mut cx.feat).map(|p| sub_chunks(&[(*b"VP8 ", p)])),
                    _ => {
                        let (a, _) = c05::alpha_content(&mut r, fw, fh);
                        let (fl, cmp) = (r.below(4) as u8, r.chance(1, 2));
                        match (c05::alph_payload(&mut r, &a, fw, fh, fl, cmp, 0), vp8_payload(&mut r, fw, fh, &mut cx.feat)) {
                            (Some(al), Some(p)) => Some(sub_chunks(&[(*b"ALPH", al), (*b"VP8 ", p)])),
                            _ => None,
                        }
                    }
                };
                let Some(body) = body else { ok = false; break };
                let p = anmf_payload(ox / 2, oy / 2, fw as u32 - 1, fh as u32 - 1, 10 * (fi as u32 + 1), r.below(4) as u8, &body);
                top.push(rw::chunk(b"ANMF", &p));
                let n = if fi + 1 < nframes { 1 + r.below(3) } else { r.below(2) };
                cx.feat.inc(&format!("between_frames.gap_chunks.{}", if fi + 1 < nframes { n } else { 100 + n }));
                gap(&mut r, &mut top, &mut flags, n, &mut cx.feat);
            }
            if !ok {
                continue;
            }
            let mut body = rw::vp8x(flags, cw, ch);
            let bg = [r.byte(), r.byte(), r.byte(), r.byte()];
            let mut anim = bg.to_vec();
            anim.extend_from_slice(&0u16.to_le_bytes());
            body.extend_from_slice(&rw::chunk(b"ANIM", &anim));
            for c in &top {
                body.extend_from_slice(c);
            }
            let file = rw::riff(&body);
            cx.animation("between_frames.valid", &file);
            cx.against_libwebp_frames("between_frames.valid", &file);
            // the same, cut inside / right after the chunks of the last gap (the loop meets the end of the file)
            if i % 4 == 0 {
                for cut in [file.len() - 1, file.len() - 5, file.len() - 9] {
                    // a cut that reaches into a VP8 payload which the crate's VP8 decoder still accepts: skipped (see family F)
                    let (mut pw, mut pc, mut skip) = (44u64, 44u64, false);
                    loop {
                        let (a, b) = (frame_vp8_payload(&file, pw), frame_vp8_payload(&file[..cut], pc));
                        let (Some(a), Some(b)) = (a, b) else { break };
                        if let (Some(x), Some(y)) = (&a.2, &b.2) {
                            if x != y && vp8_standalone(y).is_none() { skip = true; }
                        }
                        pw = a.0 + a.1 + 8;
                        pc = b.0 + b.1 + 8;
                    }
                    if skip {
                        cx.feat.inc("skipped.cut_vp8_accepted_by_crate");
                        continue;
                    }
                    cx.animation("between_frames.truncated", &file[..cut]);
                }
            }
        }

        // ---- (J) call sequences (C07): read_frame / reset_animation / read_image / buffer refill in any order ----
        {
            let mut o_rng = Rng::new(seed ^ 0xC07);
            let mut anims: Vec<(String, Vec<u8>)> = vec![];
            for it in corpus::generated_animations(&mut o_rng, if thorough { 40 } else { 12 }, 16) {
                anims.push(("ops.generated".to_string(), it.bytes));
            }
            for it in corpus::test_images(if thorough { 400_000 } else { 60_000 }).into_iter().filter(|i| i.kind == "animated") {
                anims.push(("ops.test_image".to_string(), it.bytes));
            }
            // animations with chunks between the frames, frames that leave pixels behind (sub-rectangles, blend / dispose)
            for i in 0..(if thorough { 30 } else { 8 }) {
                let mut r = o_rng.fork();
                let (cw, ch) = pick_dims(&mut r, maxd.min(20));
                let nframes = 1 + r.below(4) as usize;
                let mut top: Vec<Vec<u8>> = vec![];
                let mut ok = true;
                for fi in 0..nframes {
                    let (fw, fh) = (1 + r.below(cw as u64) as usize, 1 + r.below(ch as u64) as usize);
                    let (ox, oy) = ((r.below((cw - fw + 1) as u64) as u32) & !1, (r.below((ch - fh + 1) as u64) as u32) & !1);
                    let body = match (i + fi) % 3 {
                        0 => vp8l_payload(&mut r, fw, fh, &mut cx.feat).map(|p| sub_chunks(&[(*b"VP8L", p)])),
                        1 => vp8_payload(&mut r, fw, fh, &mut cx.feat).map(|p| sub_chunks(&[(*b"VP8 ", p)])),
                        _ => {
                            let (a, _) = c05::alpha_content(&mut r, fw, fh);
                            let (fl, cmp) = (r.below(4) as u8, r.chance(1, 2));
                            match (c05::alph_payload(&mut r, &a, fw, fh, fl, cmp, 0), vp8_payload(&mut r, fw, fh, &mut cx.feat)) {
                                (Some(al), Some(p)) => Some(sub_chunks(&[(*b"ALPH", al), (*b"VP8 ", p)])),
                                _ => None,
                            }
                        }
                    };
                    let Some(body) = body else { ok = false; break };
                    if r.chance(1, 2) {
                        let kk = r.below(6) as usize;
                        top.push(rw::chunk(b"unkn", &r.bytes(kk)));
                    }
                    top.push(rw::chunk(b"ANMF", &anmf_payload(ox / 2, oy / 2, fw as u32 - 1, fh as u32 - 1, 10 * (fi as u32 + 1), r.below(4) as u8, &body)));
                }
                if ok {
                    let bg = [r.byte(), r.byte(), r.byte(), r.byte()];
                    anims.push(("ops.between_frames".to_string(), anim_file(cw as u32, ch as u32, r.chance(1, 2), bg, &top)));
                }
            }
            // a damaged second frame: the failing read_frame must leave state and buffer as the model says, also across reset / read_image
            let n_ok = anims.len();
            for k in 0..n_ok.min(if thorough { 12 } else { 4 }) {
                let mut f = anims[k * 2 % n_ok].1.clone();
                let n = f.len();
                if n > 60 {
                    let at = n - 1 - o_rng.below((n / 3) as u64) as usize;
                    f[at] ^= 1 << o_rng.below(8);
                    anims.push(("ops.damaged".to_string(), f));
                }
            }
            for (class, file) in &anims {
                let f2 = file.clone();
                let nf = catch(move || WebPDecoder::new(Cursor::new(f2)).ok().map(|d| d.num_frames())).ok().flatten().unwrap_or(1) as usize;
                // fixed shapes: exhaustion then reset; read_image first / in the middle / after exhaustion; refill before a failing call
                let all_f = "F".repeat(nf);
                let mut seqs: Vec<String> = vec![
                    format!("{all_f}FSFR{all_f}F"),
                    format!("IF{}", "IF".repeat(nf)),
                    format!("FRFRIRF{all_f}SIF"),
                    format!("SISR{all_f}IFRI"),
                ];
                for _ in 0..(if thorough { 6 } else { 3 }) {
                    let len = 1 + o_rng.below(30) as usize;
                    seqs.push((0..len).map(|_| *o_rng.pick(&['F', 'F', 'F', 'R', 'I', 'S'])).collect());
                }
                for q in &seqs {
                    if class == "ops.damaged" && file.len() > 4000 {
                        continue;
                    }
                    cx.ops(class, file, q);
                }
            }
        }

        // ---- (H) wrong buffer lengths on a sample of the files above ----
        let step = (sample_files.len() / (if thorough { 120 } else { 40 })).max(1);
        for f in sample_files.iter().step_by(step) {
            let f2 = f.clone();
            let Some(n) = catch(move || WebPDecoder::new(Cursor::new(f2)).ok().and_then(|d| d.output_buffer_size())).ok().flatten() else { continue };
            for wrong in [0usize, n.saturating_sub(1), n + 1, n * 4 / 3, n * 3 / 4, n + 4] {
                if wrong != n {
                    cx.still("wrong_length", f, Some(wrong));
                }
            }
        }
        // ... and on animations (read_image checks the length before anything else)
        let mut a_rng = Rng::new(seed ^ 0xA11);
        for it in corpus::generated_animations(&mut a_rng, 4, 12) {
            let f2 = it.bytes.clone();
            let Some(n) = catch(move || WebPDecoder::new(Cursor::new(f2)).ok().and_then(|d| d.output_buffer_size())).ok().flatten() else { continue };
            for wrong in [0usize, n - 1, n + 1] {
                cx.still("wrong_length.animated", &it.bytes, Some(wrong));
            }
        }
    }

    let stats = format!(
        "{{\"check\": \"readimage\", \"tier\": {}, \"seed\": {}, \"evaluations\": {}, \"cases_written\": {}, \"max_canvas_pixels\": {}, \"features\": {}, \"observations\": [{}], \"violations\": [{}]}}",
        jstr(tier),
        seed,
        cx.evaluations,
        cx.out.n,
        cx.max_px,
        cx.feat.json(),
        cx.observations.iter().map(|v| jstr(v)).collect::<Vec<_>>().join(", "),
        cx.violations.iter().map(|v| jstr(v)).collect::<Vec<_>>().join(", ")
    );
    cx.out.finish(&stats);
}
