//! vp8recon (C02): the RECONSTRUCTION half of `Vp8Decoder::decode_frame_` -- per macroblock `intra_predict_luma` /
//! `intra_predict_chroma` into the macroblock-aligned planes, then the loop-filter pass, then `crop_plane` -- against
//! Model/Vp8Recon.v.
//!
//! * `frame` cases: the REAL `decode_frame` runs on a key frame while a cfg-guarded recorder inside `decode_frame_`
//!   (`image_webp::verif::vp8_decode_frame_recorded`) notes the header fields the reconstruction reads, the
//!   `MacroBlock` and the 384 residuals handed to `intra_predict_*` for every macroblock, and the planes before the
//!   filter pass.  case = (header fields, macroblock records); expected = the unfiltered macroblock-aligned planes and
//!   the planes of the returned `Frame`.  Sources: frame programs of `gen_vp8` (every mode, segment, filter type /
//!   level / sharpness / delta, sizes of every residue mod 16), libwebp encodes, the repository's lossy test images.
//! * `lfmb` cases: one real `Vp8Decoder::loop_filter` call on generated planes (noise, gradients, blocky content, so that
//!   every branch of the three edge functions is taken), generated filter parameters, every macroblock position of
//!   small frames incl. the frame-edge exclusions; some deliberately impossible geometries (both sides must panic).
//! * `lfpass` cases: the filter pass of `decode_frame_` (same loops) on generated planes and macroblocks.
//! * `crop` cases: `crop_plane`;  `edge` cases: one edge function of loop_filter.rs at one position of a small buffer.
//!
//! Natively (independent of the crate; mismatches are `violations`): returned planes against libwebp's
//! `WebPDecodeYUV`; `lfmb` / `lfpass` / `edge` against a transcription of libwebp 1.3.1 dsp/dec.c (DoFilter2/4/6, Hev,
//! NeedsFilter/2, FilterLoop24/26, Simple*Filter16*) and frame_dec.c (DoFilter, PrecomputeFilterStrengths); `crop`
//! against row slicing; recorder consistency (filtered planes, cropped natively = returned planes).
//! `frames.txt` (next to cases.txt) lists the payload of every frame case as `vp8 <hex>`: `harness vp8recon replay <seed> <out> frames.txt`
//! re-runs them (all, or a file cut down to the lines of interest).
//! Inputs whose segment filter level leaves 0..63 before the deltas (libwebp clamps once, the RFC decoder and the crate
//! twice) are counted as `lf_ambiguous` and not judged natively.
use crate::gen_vp8::{self, Features, GenOpts};
use crate::ref_webp as rw;
use crate::util::*;
use image_webp::verif as iw;
use image_webp::verif::{ReconHeader, ReconMb};

// ------------------------------------------------------------------------------------------------
// case text
// ------------------------------------------------------------------------------------------------
fn hdr_csv(h: &ReconHeader) -> String {
    let mut v: Vec<i64> = vec![
        h.mbwidth as i64, h.mbheight as i64, h.width as i64, h.height as i64, h.filter_type as i64, h.filter_level as i64,
        h.sharpness_level as i64, h.segments_enabled as i64,
    ];
    v.extend(h.segment_delta_values.iter().map(|&b| b as i64));
    v.extend(h.segment_loopfilter_level.iter().map(|&b| b as i64));
    v.extend(h.ref_delta.iter().map(|&b| b as i64));
    v.extend(h.mode_delta.iter().map(|&b| b as i64));
    v.iter().map(|x| x.to_string()).collect::<Vec<_>>().join(",")
}
fn mb_words(m: &ReconMb) -> String {
    let bp: Vec<u8> = m.bpred.iter().map(|&b| b as u8).collect();
    format!("{},{},{},{},{} {}", m.luma_mode, m.chroma_mode, m.segmentid, m.coeffs_skipped as u8, m.non_zero_coeffs as u8, hex(&bp))
}
fn res_csv(r: &[i32]) -> String {
    if r.iter().all(|&x| x == 0) && r.len() == 384 {
        "z".to_string()
    } else {
        r.iter().map(|x| x.to_string()).collect::<Vec<_>>().join(",")
    }
}
fn ok3(y: &[u8], u: &[u8], v: &[u8]) -> String {
    format!("OK {} {} {}", hex(y), hex(u), hex(v))
}

// ------------------------------------------------------------------------------------------------
// libwebp's loop filter, transcribed from dsp/dec.c and dec/frame_dec.c (C versions)
// ------------------------------------------------------------------------------------------------
fn sclip1(v: i32) -> i32 { v.clamp(-128, 127) }
fn sclip2(v: i32) -> i32 { v.clamp(-16, 15) }
fn clip1(v: i32) -> u8 { v.clamp(0, 255) as u8 }

struct Pl<'a> { p: &'a mut [u8] }
impl Pl<'_> {
    fn g(&self, i: i64) -> i32 { self.p[i as usize] as i32 }
    fn s(&mut self, i: i64, v: u8) { self.p[i as usize] = v; }
    fn do_filter2(&mut self, i: i64, st: i64) {
        let (p1, p0, q0, q1) = (self.g(i - 2 * st), self.g(i - st), self.g(i), self.g(i + st));
        let a = 3 * (q0 - p0) + sclip1(p1 - q1);
        let a1 = sclip2((a + 4) >> 3);
        let a2 = sclip2((a + 3) >> 3);
        self.s(i - st, clip1(p0 + a2));
        self.s(i, clip1(q0 - a1));
    }
    fn do_filter4(&mut self, i: i64, st: i64) {
        let (p1, p0, q0, q1) = (self.g(i - 2 * st), self.g(i - st), self.g(i), self.g(i + st));
        let a = 3 * (q0 - p0);
        let a1 = sclip2((a + 4) >> 3);
        let a2 = sclip2((a + 3) >> 3);
        let a3 = (a1 + 1) >> 1;
        self.s(i - 2 * st, clip1(p1 + a3));
        self.s(i - st, clip1(p0 + a2));
        self.s(i, clip1(q0 - a1));
        self.s(i + st, clip1(q1 - a3));
    }
    fn do_filter6(&mut self, i: i64, st: i64) {
        let (p2, p1, p0) = (self.g(i - 3 * st), self.g(i - 2 * st), self.g(i - st));
        let (q0, q1, q2) = (self.g(i), self.g(i + st), self.g(i + 2 * st));
        let a = sclip1(3 * (q0 - p0) + sclip1(p1 - q1));
        let a1 = (27 * a + 63) >> 7;
        let a2 = (18 * a + 63) >> 7;
        let a3 = (9 * a + 63) >> 7;
        self.s(i - 3 * st, clip1(p2 + a3));
        self.s(i - 2 * st, clip1(p1 + a2));
        self.s(i - st, clip1(p0 + a1));
        self.s(i, clip1(q0 - a1));
        self.s(i + st, clip1(q1 - a2));
        self.s(i + 2 * st, clip1(q2 - a3));
    }
    fn hev(&self, i: i64, st: i64, t: i32) -> bool {
        let (p1, p0, q0, q1) = (self.g(i - 2 * st), self.g(i - st), self.g(i), self.g(i + st));
        (p1 - p0).abs() > t || (q1 - q0).abs() > t
    }
    fn needs_filter(&self, i: i64, st: i64, t: i32) -> bool {
        let (p1, p0, q0, q1) = (self.g(i - 2 * st), self.g(i - st), self.g(i), self.g(i + st));
        4 * (p0 - q0).abs() + (p1 - q1).abs() <= t
    }
    fn needs_filter2(&self, i: i64, st: i64, t: i32, it: i32) -> bool {
        let (p3, p2, p1, p0) = (self.g(i - 4 * st), self.g(i - 3 * st), self.g(i - 2 * st), self.g(i - st));
        let (q0, q1, q2, q3) = (self.g(i), self.g(i + st), self.g(i + 2 * st), self.g(i + 3 * st));
        if 4 * (p0 - q0).abs() + (p1 - q1).abs() > t {
            return false;
        }
        (p3 - p2).abs() <= it && (p2 - p1).abs() <= it && (p1 - p0).abs() <= it && (q3 - q2).abs() <= it && (q2 - q1).abs() <= it && (q1 - q0).abs() <= it
    }
    /// SimpleVFilter16 / SimpleHFilter16: 16 positions `along` apart, samples `across` apart
    fn simple16(&mut self, i: i64, across: i64, along: i64, thresh: i32, st: &mut LfStats) {
        let t2 = 2 * thresh + 1;
        for k in 0..16 {
            st.positions += 1;
            if self.needs_filter(i + k * along, across, t2) {
                st.simple_applied += 1;
                self.do_filter2(i + k * along, across);
            }
        }
    }
    fn loop26(&mut self, i: i64, hstride: i64, vstride: i64, size: i64, thresh: i32, ithresh: i32, hevt: i32, st: &mut LfStats) {
        let t2 = 2 * thresh + 1;
        for k in 0..size {
            st.positions += 1;
            let p = i + k * vstride;
            if self.needs_filter2(p, hstride, t2, ithresh) {
                if self.hev(p, hstride, hevt) { st.mb_hev += 1; self.do_filter2(p, hstride); } else { st.mb_nohev += 1; self.do_filter6(p, hstride); }
            }
        }
    }
    fn loop24(&mut self, i: i64, hstride: i64, vstride: i64, size: i64, thresh: i32, ithresh: i32, hevt: i32, st: &mut LfStats) {
        let t2 = 2 * thresh + 1;
        for k in 0..size {
            st.positions += 1;
            let p = i + k * vstride;
            if self.needs_filter2(p, hstride, t2, ithresh) {
                if self.hev(p, hstride, hevt) { st.sub_hev += 1; self.do_filter2(p, hstride); } else { st.sub_nohev += 1; self.do_filter4(p, hstride); }
            }
        }
    }
}

#[derive(Default, Clone)]
struct LfStats { positions: u64, simple_applied: u64, mb_hev: u64, mb_nohev: u64, sub_hev: u64, sub_nohev: u64 }

/// PrecomputeFilterStrengths for one macroblock: Some((limit, ilevel, hev_thresh)), None = the two references differ
fn lw_strength(h: &ReconHeader, mb: &ReconMb) -> Option<(i32, i32, i32)> {
    let s = mb.segmentid as usize & 3;
    let mut base = h.filter_level as i32;
    if h.segments_enabled {
        base = h.segment_loopfilter_level[s] as i32 + if h.segment_delta_values[s] { base } else { 0 };
    }
    if !(0..=63).contains(&base) {
        return None;
    }
    let mut level = base + h.ref_delta[0];
    if mb.luma_mode == 4 {
        level += h.mode_delta[0];
    }
    let level = level.clamp(0, 63);
    if level == 0 {
        return Some((0, 0, 0));
    }
    let mut il = level;
    let sh = h.sharpness_level as i32;
    if sh > 0 {
        il >>= if sh > 4 { 2 } else { 1 };
        if il > 9 - sh {
            il = 9 - sh;
        }
    }
    if il < 1 {
        il = 1;
    }
    Some((2 * level + il, il, if level >= 40 { 2 } else if level >= 15 { 1 } else { 0 }))
}

/// frame_dec.c DoFilter for macroblock (mbx, mby) of macroblock-aligned planes; false = not judged (ambiguous level)
fn lw_do_filter(h: &ReconHeader, mbx: usize, mby: usize, mb: &ReconMb, y: &mut [u8], u: &mut [u8], v: &mut [u8], st: &mut LfStats) -> bool {
    let Some((limit, ilevel, hevt)) = lw_strength(h, mb) else { return false };
    if limit == 0 {
        return true;
    }
    let inner = mb.luma_mode == 4 || mb.non_zero_coeffs;
    let ys = h.mbwidth as i64 * 16;
    let uvs = h.mbwidth as i64 * 8;
    let y0 = (mby as i64 * 16) * ys + mbx as i64 * 16;
    let c0 = (mby as i64 * 8) * uvs + mbx as i64 * 8;
    if h.filter_type {
        let mut p = Pl { p: y };
        if mbx > 0 { p.simple16(y0, 1, ys, limit + 4, st); }
        if inner { for k in 1..4 { p.simple16(y0 + 4 * k, 1, ys, limit, st); } }
        if mby > 0 { p.simple16(y0, ys, 1, limit + 4, st); }
        if inner { for k in 1..4 { p.simple16(y0 + 4 * k * ys, ys, 1, limit, st); } }
    } else {
        if mbx > 0 {
            Pl { p: y }.loop26(y0, 1, ys, 16, limit + 4, ilevel, hevt, st);
            Pl { p: u }.loop26(c0, 1, uvs, 8, limit + 4, ilevel, hevt, st);
            Pl { p: v }.loop26(c0, 1, uvs, 8, limit + 4, ilevel, hevt, st);
        }
        if inner {
            for k in 1..4 { Pl { p: y }.loop24(y0 + 4 * k, 1, ys, 16, limit, ilevel, hevt, st); }
            Pl { p: u }.loop24(c0 + 4, 1, uvs, 8, limit, ilevel, hevt, st);
            Pl { p: v }.loop24(c0 + 4, 1, uvs, 8, limit, ilevel, hevt, st);
        }
        if mby > 0 {
            Pl { p: y }.loop26(y0, ys, 1, 16, limit + 4, ilevel, hevt, st);
            Pl { p: u }.loop26(c0, uvs, 1, 8, limit + 4, ilevel, hevt, st);
            Pl { p: v }.loop26(c0, uvs, 1, 8, limit + 4, ilevel, hevt, st);
        }
        if inner {
            for k in 1..4 { Pl { p: y }.loop24(y0 + 4 * k * ys, ys, 1, 16, limit, ilevel, hevt, st); }
            Pl { p: u }.loop24(c0 + 4 * uvs, uvs, 1, 8, limit, ilevel, hevt, st);
            Pl { p: v }.loop24(c0 + 4 * uvs, uvs, 1, 8, limit, ilevel, hevt, st);
        }
    }
    true
}

// ------------------------------------------------------------------------------------------------
// generators
// ------------------------------------------------------------------------------------------------
/// a plane with content that makes the filters act: noise, gradient, 4x4-blocky steps, flat
fn gen_plane(rng: &mut Rng, w: usize, h: usize) -> Vec<u8> {
    let kind = rng.below(5);
    let amp = [1i32, 2, 4, 8, 24][rng.below(5) as usize];
    let base = rng.byte() as i32;
    let mut levels = vec![0i32; (w / 4 + 1) * (h / 4 + 1)];
    for l in levels.iter_mut() {
        *l = base + rng.below(2 * amp as u64 + 1) as i32 - amp;
    }
    let mut v = Vec::with_capacity(w * h);
    for y in 0..h {
        for x in 0..w {
            let s = match kind {
                0 => rng.byte() as i32,
                1 => base + (x as i32 * amp) / 4 + (y as i32) / 2,
                2 => levels[(y / 4) * (w / 4 + 1) + x / 4],
                3 => levels[(y / 4) * (w / 4 + 1) + x / 4] + rng.below(3) as i32 - 1,
                _ => base,
            };
            v.push(s.clamp(0, 255) as u8);
        }
    }
    v
}

fn gen_header(rng: &mut Rng, mbw: u16, mbh: u16) -> ReconHeader {
    let lvl = |rng: &mut Rng| -> i8 {
        match rng.below(6) {
            0 => 0,
            1 => rng.range(0, 63) as i8,
            2 => -(rng.range(0, 63) as i8),
            3 => *rng.pick(&[14i8, 15, 16, 39, 40, 41, 63, -63, 1, -1]),
            _ => rng.range(0, 40) as i8,
        }
    };
    let delta = |rng: &mut Rng| -> i32 {
        match rng.below(4) {
            0 => 0,
            1 => rng.range(0, 63) as i32 * if rng.chance(1, 2) { -1 } else { 1 },
            _ => rng.range(0, 8) as i32 * if rng.chance(1, 2) { -1 } else { 1 },
        }
    };
    let seg_delta = rng.chance(1, 2);
    let width = (mbw as u64 * 16 - rng.below(16)) as u16;
    let height = (mbh as u64 * 16 - rng.below(16)) as u16;
    let use_delta = rng.chance(1, 2);
    ReconHeader {
        mbwidth: mbw,
        mbheight: mbh,
        width,
        height,
        keyframe: true,
        filter_type: rng.chance(2, 5),
        filter_level: match rng.below(8) { 0 => 0, 1 => 63, 2 => *rng.pick(&[1u8, 14, 15, 16, 39, 40, 41]), _ => rng.range(1, 63) as u8 },
        sharpness_level: rng.below(8) as u8,
        segments_enabled: rng.chance(1, 2),
        segment_delta_values: [seg_delta; 4],
        segment_loopfilter_level: [lvl(rng), lvl(rng), lvl(rng), lvl(rng)],
        ref_delta: if use_delta { [delta(rng), delta(rng), delta(rng), delta(rng)] } else { [0; 4] },
        mode_delta: if use_delta { [delta(rng), delta(rng), delta(rng), delta(rng)] } else { [0; 4] },
    }
}

fn gen_mb(rng: &mut Rng) -> ReconMb {
    let mut bpred = [0i8; 16];
    let luma = *rng.pick(&[0i8, 1, 2, 3, 4, 4]);
    if luma == 4 {
        for b in bpred.iter_mut() {
            *b = rng.below(10) as i8;
        }
    }
    ReconMb { luma_mode: luma, bpred, chroma_mode: rng.below(4) as i8, segmentid: rng.below(4) as u8, coeffs_skipped: rng.chance(1, 4), non_zero_coeffs: rng.chance(1, 2) }
}

// ------------------------------------------------------------------------------------------------
// the check
// ------------------------------------------------------------------------------------------------
struct Ctx {
    out: Out,
    /// `vp8 <hex payload>` of every frame case, in case order (input of the `replay` tier)
    frames: Vec<String>,
    feat: Features,
    violations: Vec<String>,
    n_violations: u64,
    lf: LfStats,
}
impl Ctx {
    fn violation(&mut self, s: String) {
        self.n_violations += 1;
        if self.violations.len() < 12 {
            self.violations.push(if s.len() > 1500 { format!("{}...", &s[..1500]) } else { s });
        }
    }

    /// one key frame through the real decoder with the recorder on
    fn frame(&mut self, source: &str, payload: &[u8], ambiguous: bool, max_mbs: usize) {
        self.feat.inc(&format!("frame.{source}.inputs"));
        let p = payload.to_vec();
        let r = catch(move || iw::vp8_decode_frame_recorded(&p));
        let (res, rec) = match r {
            Err(m) => {
                iw::vp8_recording_reset();
                self.feat.inc(&format!("frame.{source}.decoder_panics"));
                self.violation(format!("decode_frame panics on a {source} frame: {} [vp8 {}]", m, hex(payload)));
                return;
            }
            Ok(x) => x,
        };
        let frame = match res {
            Err(_) => {
                // the parsing half rejected the stream: nothing to reconstruct
                self.feat.inc(&format!("frame.{source}.rejected_by_parser"));
                return;
            }
            Ok(f) => f,
        };
        let Some(h) = rec.header.clone() else {
            self.violation(format!("recorder saw no header on an accepted {source} frame"));
            return;
        };
        let nmb = h.mbwidth as usize * h.mbheight as usize;
        if nmb > max_mbs {
            self.feat.inc(&format!("frame.{source}.skipped_too_large"));
            return;
        }
        let (Some(unf), Some(fil)) = (rec.unfiltered.as_ref(), rec.filtered.as_ref()) else {
            self.violation(format!("recorder saw no planes on an accepted {source} frame"));
            return;
        };
        if rec.macroblocks.len() != nmb || !h.keyframe {
            self.violation(format!("recorder saw {} macroblocks, expected {}", rec.macroblocks.len(), nmb));
            return;
        }
        // ---- the case
        let mut line = format!("vp8r frame {} {}", hdr_csv(&h), nmb);
        for (mb, res) in &rec.macroblocks {
            line.push(' ');
            line.push_str(&mb_words(mb));
            line.push(' ');
            line.push_str(&res_csv(res));
        }
        let result = format!("{} {} {} {}", ok3(&unf.0, &unf.1, &unf.2), hex(&frame.ybuf), hex(&frame.ubuf), hex(&frame.vbuf));
        self.out.case(&line, &result);
        self.frames.push(format!("vp8 {}", hex(payload)));
        self.feat.inc(&format!("frame.{source}.cases"));
        // ---- distribution
        let f = &mut self.feat;
        f.add("frame.macroblocks", nmb as u64);
        f.inc(&format!("frame.width_mod16.{:02}", h.width % 16));
        f.inc(&format!("frame.height_mod16.{:02}", h.height % 16));
        f.inc(&format!("frame.mb_cols.{:02}", h.mbwidth.min(9)));
        f.inc(&format!("frame.mb_rows.{:02}", h.mbheight.min(9)));
        f.inc(if h.filter_level == 0 { "frame.filter.off" } else if h.filter_type { "frame.filter.simple" } else { "frame.filter.normal" });
        if h.filter_level != 0 {
            f.inc(&format!("frame.sharpness.{}", h.sharpness_level));
            f.inc(&format!("frame.filter_level.{}", match h.filter_level { 1..=14 => "01-14", 15..=39 => "15-39", _ => "40-63" }));
            if *unf != *fil { f.inc("frame.loop_filter_changed_samples"); }
        }
        if h.segments_enabled {
            f.inc("frame.segments_enabled");
            f.inc(if h.segment_delta_values[0] { "frame.segments.delta" } else { "frame.segments.absolute" });
            if h.segment_loopfilter_level.iter().any(|&l| l != 0) { f.inc("frame.segments.with_filter_levels"); }
        }
        if h.ref_delta[0] != 0 { f.inc("frame.ref_delta0_nonzero"); }
        if h.mode_delta[0] != 0 { f.inc("frame.mode_delta0_nonzero"); }
        if ambiguous { f.inc("frame.lf_ambiguous"); }
        for (mb, res) in &rec.macroblocks {
            f.inc(&format!("mb.luma_mode.{}", ["DC", "V", "H", "TM", "B"][mb.luma_mode as usize]));
            f.inc(&format!("mb.chroma_mode.{}", ["DC", "V", "H", "TM"][mb.chroma_mode as usize]));
            f.inc(&format!("mb.segment.{}", mb.segmentid));
            if mb.coeffs_skipped { f.inc("mb.coeffs_skipped"); }
            if mb.non_zero_coeffs { f.inc("mb.non_zero_coeffs"); }
            if res.iter().any(|&x| x != 0) { f.inc("mb.with_residue"); }
            if mb.luma_mode == 4 {
                for &b in &mb.bpred {
                    f.inc(&format!("mb.bpred.{}", ["DC", "TM", "VE", "HE", "LD", "RD", "VR", "VL", "HD", "HU"][b as usize]));
                }
            }
        }
        // ---- native: recorder consistency (crop of the filtered planes = returned planes)
        let (w, hh) = (h.width as usize, h.height as usize);
        let (cw, ch) = ((w + 1) / 2, (hh + 1) / 2);
        let crop = |p: &[u8], stride: usize, w: usize, h: usize| -> Vec<u8> {
            let mut o = Vec::with_capacity(w * h);
            for y in 0..h { o.extend_from_slice(&p[y * stride..y * stride + w]); }
            o
        };
        if crop(&fil.0, h.mbwidth as usize * 16, w, hh) != frame.ybuf
            || crop(&fil.1, h.mbwidth as usize * 8, cw, ch) != frame.ubuf
            || crop(&fil.2, h.mbwidth as usize * 8, cw, ch) != frame.vbuf
        {
            self.violation(format!("returned planes are not the crop of the filtered planes [vp8 {}]", hex(payload)));
        }
        // ---- native: the filter pass against libwebp's DoFilter on the recorded unfiltered planes
        if h.filter_level != 0 {
            let (mut y, mut u, mut v) = unf.clone();
            let mut judged = true;
            let mut st = LfStats::default();
            for mby in 0..h.mbheight as usize {
                for mbx in 0..h.mbwidth as usize {
                    judged &= lw_do_filter(&h, mbx, mby, &rec.macroblocks[mby * h.mbwidth as usize + mbx].0, &mut y, &mut u, &mut v, &mut st);
                }
            }
            if judged {
                self.feat.inc("frame.native_filter_pass_checks");
                if (y, u, v) != *fil {
                    self.violation(format!("filter pass differs from libwebp's DoFilter on the recorded planes [vp8 {}]", hex(payload)));
                }
            }
        }
        // ---- native: libwebp's decoder
        if !ambiguous {
            rw::force_c(true);
            let refp = rw::decode_yuv(&rw::simple_vp8(payload));
            rw::force_c(false);
            match refp {
                None => self.feat.inc(&format!("frame.{source}.rejected_by_libwebp")),
                Some(p) => {
                    self.feat.inc("frame.native_libwebp_checks");
                    if p.w != w || p.h != hh || p.y != frame.ybuf || p.u != frame.ubuf || p.v != frame.vbuf {
                        self.feat.inc(&format!("frame.{source}.differs_from_libwebp"));
                        self.violation(format!("returned planes differ from libwebp's on a {source} frame [vp8 {}]", hex(payload)));
                    }
                }
            }
        }
    }

    fn lfmb(&mut self, rng: &mut Rng) {
        let (mbw, mbh) = (rng.range(1, 3) as u16, rng.range(1, 3) as u16);
        let h = gen_header(rng, mbw, mbh);
        let mb = gen_mb(rng);
        let (lw, lh) = (mbw as usize * 16, mbh as usize * 16);
        let mut y = gen_plane(rng, lw, lh);
        let mut u = gen_plane(rng, lw / 2, lh / 2);
        let mut v = gen_plane(rng, lw / 2, lh / 2);
        let (mut mbx, mut mby) = (rng.below(mbw as u64) as usize, rng.below(mbh as u64) as usize);
        let wild = rng.chance(1, 12);
        if wild {
            match rng.below(5) {
                0 => mbx = mbw as usize + rng.below(2) as usize,
                1 => mby = mbh as usize + rng.below(2) as usize,
                2 => { let n = rng.below(y.len() as u64 + 1) as usize; y.truncate(n); }
                3 => { let n = rng.below(u.len() as u64 + 1) as usize; u.truncate(n); }
                _ => { let n = rng.below(v.len() as u64 + 1) as usize; v.truncate(n); }
            }
        }
        let line = format!("vp8r lfmb {} {} {} {} {} {} {}", hdr_csv(&h), mbx, mby, mb_words(&mb), hex(&y), hex(&u), hex(&v));
        let (h2, mb2, y2, u2, v2) = (h.clone(), mb.clone(), y.clone(), u.clone(), v.clone());
        let r = catch(move || iw::vp8_loop_filter_mb(&h2, mbx, mby, &mb2, y2, u2, v2));
        self.feat.inc(if wild { "lfmb.wild" } else { "lfmb.valid" });
        self.feat.inc(if h.filter_type { "lfmb.simple" } else { "lfmb.normal" });
        self.feat.inc(&format!("lfmb.sharpness.{}", h.sharpness_level));
        self.feat.inc(&format!("lfmb.position.{}{}", if mbx == 0 { "left" } else { "inner" }, if mby == 0 { "_top" } else { "_inner" }));
        match &r {
            Ok((ry, ru, rv)) => {
                self.out.case(&line, &ok3(ry, ru, rv));
                if *ry != y || *ru != u || *rv != v { self.feat.inc("lfmb.changed_samples"); }
                if !wild {
                    let (mut ny, mut nu, mut nv) = (y.clone(), u.clone(), v.clone());
                    let mut st = std::mem::take(&mut self.lf);
                    let judged = lw_do_filter(&h, mbx, mby, &mb, &mut ny, &mut nu, &mut nv, &mut st);
                    self.lf = st;
                    if judged {
                        self.feat.inc("lfmb.native_checks");
                        match lw_strength(&h, &mb) { Some((0, _, _)) => self.feat.inc("lfmb.level_zero"), _ => {} }
                        if ny != *ry || nu != *ru || nv != *rv {
                            self.violation(format!("loop_filter differs from libwebp's DoFilter: {line}"));
                        }
                    } else {
                        self.feat.inc("lfmb.lf_ambiguous");
                    }
                }
            }
            Err(m) => {
                self.out.case(&line, "PANIC");
                self.feat.inc("lfmb.panics");
                if !wild {
                    self.violation(format!("loop_filter panics on valid geometry ({m}): {line}"));
                }
            }
        }
    }

    fn lfpass(&mut self, rng: &mut Rng) {
        let (mbw, mbh) = (rng.range(1, 4) as u16, rng.range(1, 4) as u16);
        let mut h = gen_header(rng, mbw, mbh);
        if rng.chance(1, 10) { h.filter_level = 0; }
        let n = mbw as usize * mbh as usize;
        let mut mbs: Vec<ReconMb> = (0..n).map(|_| gen_mb(rng)).collect();
        let (lw, lh) = (mbw as usize * 16, mbh as usize * 16);
        let y = gen_plane(rng, lw, lh);
        let u = gen_plane(rng, lw / 2, lh / 2);
        let v = gen_plane(rng, lw / 2, lh / 2);
        let wild = rng.chance(1, 20);
        if wild { mbs.truncate(rng.below(n as u64) as usize); }
        let mut line = format!("vp8r lfpass {} {}", hdr_csv(&h), mbs.len());
        for m in &mbs { line.push(' '); line.push_str(&mb_words(m)); }
        line.push_str(&format!(" {} {} {}", hex(&y), hex(&u), hex(&v)));
        let (h2, mbs2, y2, u2, v2) = (h.clone(), mbs.clone(), y.clone(), u.clone(), v.clone());
        let r = catch(move || iw::vp8_filter_pass(&h2, &mbs2, y2, u2, v2));
        self.feat.inc(if wild { "lfpass.wild" } else { "lfpass.valid" });
        self.feat.inc(if h.filter_level == 0 { "lfpass.off" } else if h.filter_type { "lfpass.simple" } else { "lfpass.normal" });
        match &r {
            Ok((ry, ru, rv)) => {
                self.out.case(&line, &ok3(ry, ru, rv));
                if !wild {
                    let (mut ny, mut nu, mut nv) = (y.clone(), u.clone(), v.clone());
                    let mut judged = true;
                    let mut st = LfStats::default();
                    if h.filter_level != 0 {
                        for mby in 0..mbh as usize { for mbx in 0..mbw as usize {
                            judged &= lw_do_filter(&h, mbx, mby, &mbs[mby * mbw as usize + mbx], &mut ny, &mut nu, &mut nv, &mut st);
                        } }
                    }
                    if judged {
                        self.feat.inc("lfpass.native_checks");
                        if ny != *ry || nu != *ru || nv != *rv {
                            self.violation(format!("filter pass differs from libwebp's DoFilter: {line}"));
                        }
                    } else {
                        self.feat.inc("lfpass.lf_ambiguous");
                    }
                }
            }
            Err(m) => {
                self.out.case(&line, "PANIC");
                self.feat.inc("lfpass.panics");
                if !wild && h.filter_level != 0 { self.violation(format!("filter pass panics on valid input ({m}): {line}")); }
                if !wild && h.filter_level == 0 { self.violation(format!("filter pass panics with the filter off ({m})")); }
            }
        }
    }

    fn crop(&mut self, rng: &mut Rng) {
        let wild = rng.chance(1, 8);
        let stride = rng.range(1, 40) as usize;
        let mut width = rng.range(0, stride as u64) as usize;
        if rng.chance(1, 4) { width = stride; }
        let rows = rng.range(0, 20) as usize;
        let mut height = rng.range(0, rows as u64) as usize;
        if wild { match rng.below(2) { 0 => width = stride + rng.range(1, 5) as usize, _ => height = rows + rng.range(1, 3) as usize } }
        let plane = rng.bytes(stride * rows);
        let line = format!("vp8r crop {} {} {} {}", stride, width, height, hex(&plane));
        let p2 = plane.clone();
        let r = catch(move || iw::vp8_crop_plane(p2, stride, width, height));
        self.feat.inc(if wild { "crop.wild" } else { "crop.valid" });
        if stride == width { self.feat.inc("crop.stride_eq_width"); }
        match &r {
            Ok(o) => {
                self.out.case(&line, &format!("OK {}", hex(o)));
                if !wild {
                    let mut e = vec![];
                    for y in 0..height { e.extend_from_slice(&plane[y * stride..y * stride + width]); }
                    self.feat.inc("crop.native_checks");
                    if e != *o { self.violation(format!("crop_plane is not the top-left rectangle: {line}")); }
                }
            }
            Err(m) => {
                self.out.case(&line, "PANIC");
                self.feat.inc("crop.panics");
                if !wild { self.violation(format!("crop_plane panics on valid input ({m}): {line}")); }
            }
        }
    }

    fn edge(&mut self, rng: &mut Rng) {
        let which = rng.below(3) as u8;
        let stride = *rng.pick(&[1usize, 1, 2, 5, 8, 16]);
        let n = rng.range(8, 12) as usize * stride;
        let pixels = gen_plane(rng, n, 1);
        let wild = rng.chance(1, 4);
        let point = if wild { rng.below(n as u64 + 2 * stride as u64) as usize } else { 4 * stride + rng.below((n - 7 * stride) as u64) as usize };
        let hev = rng.below(4) as u8;
        let il = rng.range(0, 63) as u8;
        let el = rng.range(0, 200) as u8;
        let line = format!("vp8r edge {} {} {} {} {} {} {}", which, hev, il, el, point, stride, hex(&pixels));
        let p2 = pixels.clone();
        let r = catch(move || iw::vp8_lf_edge(which, hev, il, el, p2, point, stride));
        self.feat.inc(&format!("edge.{}.{}", ["simple_segment", "subblock_filter", "macroblock_filter"][which as usize], if wild { "wild" } else { "valid" }));
        match &r {
            Ok(o) => {
                self.out.case(&line, &format!("OK {}", hex(o)));
                if *o != pixels { self.feat.inc("edge.changed_samples"); }
                let (i, s) = (point as i64, stride as i64);
                if i - 4 * s >= 0 && i + 3 * s < n as i64 {
                    let mut e = pixels.clone();
                    let mut p = Pl { p: &mut e };
                    let t2 = 2 * el as i32 + 1;
                    match which {
                        0 => if p.needs_filter(i, s, t2) { p.do_filter2(i, s) },
                        1 => if p.needs_filter2(i, s, t2, il as i32) { if p.hev(i, s, hev as i32) { p.do_filter2(i, s) } else { p.do_filter4(i, s) } },
                        _ => if p.needs_filter2(i, s, t2, il as i32) { if p.hev(i, s, hev as i32) { p.do_filter2(i, s) } else { p.do_filter6(i, s) } },
                    }
                    self.feat.inc("edge.native_checks");
                    if e != *o { self.violation(format!("edge function differs from libwebp's: {line}")); }
                }
            }
            Err(m) => {
                self.out.case(&line, "PANIC");
                self.feat.inc("edge.panics");
                if !wild { self.violation(format!("edge function panics at a valid position ({m}): {line}")); }
            }
        }
    }
}

pub fn run(tier: &str, seed: u64, outdir: &str, extra: &[String]) {
    let mut cx = Ctx { out: Out::new(outdir), frames: vec![], feat: Features::default(), violations: vec![], n_violations: 0, lf: LfStats::default() };
    let mut rng = Rng::new(seed ^ 0x7EC0);
    let mut evaluations = 0u64;

    if tier == "replay" {
        // `vp8 <hex payload>` lines are re-run as frame cases; other lines cannot be rebuilt from text and are skipped
        let text = std::fs::read_to_string(&extra[0]).unwrap_or_default();
        for l in text.lines() {
            let w: Vec<&str> = l.split_whitespace().collect();
            if w.len() == 2 && w[0] == "vp8" {
                evaluations += 1;
                cx.frame("replay", &unhex(w[1]), false, usize::MAX);
            }
        }
    } else {
        let thorough = tier == "thorough";
        let (n_gen, n_enc, n_lfmb, n_pass, n_crop, n_edge) = if thorough { (2500u64, 800u64, 12000u64, 1500u64, 1500u64, 12000u64) } else { (400, 100, 1500, 200, 200, 2000) };
        let max_dim: u64 = if thorough { 96 } else { 64 };
        let max_mbs: usize = if thorough { 4000 } else { 16 };
        // (a) frame programs: sizes with every residue mod 16 in both directions
        let opts = GenOpts { max_dim, wide_pct: 20, lf_ambiguous_pct: 8, colorspace_pct: 0 };
        for i in 0..n_gen {
            let mut r = rng.fork();
            let g = if i % 2 == 0 {
                let w = (16 * r.below(max_dim / 16) + 1 + (i / 2) % 16).min(max_dim) as u16;
                let h = (16 * r.below(max_dim / 16) + 1 + (i / 32) % 16).min(max_dim) as u16;
                let (spec, domain, style) = gen_vp8::random_spec_sized(&mut r, &opts, w, h);
                let wr = gen_vp8::write_frame(&spec);
                gen_vp8::Generated { spec, domain, style, payload: wr.payload, part_sizes: wr.part_sizes, selfcheck_ok: wr.selfcheck_ok }
            } else {
                gen_vp8::generate(&mut r, &opts)
            };
            evaluations += 1;
            let amb = g.spec.lf_clamp_ambiguous();
            cx.frame("generated", &g.payload, amb, max_mbs);
        }
        // (b) libwebp encodes
        for _ in 0..n_enc {
            let mut r = rng.fork();
            let (w, h) = (r.range(1, max_dim) as usize, r.range(1, max_dim) as usize);
            if let Some((f, _)) = crate::c02::random_libwebp_encoding(&mut r, w, h, false) {
                for p in rw::vp8_payloads(&f) {
                    evaluations += 1;
                    cx.frame("libwebp_encoded", &p, false, max_mbs);
                }
            }
        }
        // (c) the repository's lossy test images (quick tier: the small ones only)
        for (_name, f) in crate::c02::lossy_test_files() {
            for p in rw::vp8_payloads(&f).into_iter().take(if thorough { 3 } else { 1 }) {
                evaluations += 1;
                cx.frame("test_images", &p, false, max_mbs);
            }
        }
        // (d) loop filter on generated planes, crop, single edge positions
        for _ in 0..n_lfmb { let mut r = rng.fork(); evaluations += 1; cx.lfmb(&mut r); }
        for _ in 0..n_pass { let mut r = rng.fork(); evaluations += 1; cx.lfpass(&mut r); }
        for _ in 0..n_crop { let mut r = rng.fork(); evaluations += 1; cx.crop(&mut r); }
        for _ in 0..n_edge { let mut r = rng.fork(); evaluations += 1; cx.edge(&mut r); }
    }
    std::fs::write(format!("{outdir}/frames.txt"), cx.frames.join("\n") + if cx.frames.is_empty() { "" } else { "\n" }).unwrap();
    let lf = cx.lf.clone();
    cx.feat.add("lfmb.native.positions", lf.positions);
    cx.feat.add("lfmb.native.simple_applied", lf.simple_applied);
    cx.feat.add("lfmb.native.mb_edge_hev", lf.mb_hev);
    cx.feat.add("lfmb.native.mb_edge_nohev", lf.mb_nohev);
    cx.feat.add("lfmb.native.inner_edge_hev", lf.sub_hev);
    cx.feat.add("lfmb.native.inner_edge_nohev", lf.sub_nohev);
    let stats = format!(
        "{{\"check\": \"vp8recon\", \"tier\": {}, \"seed\": {}, \"evaluations\": {}, \"cases\": {}, \"n_violations\": {}, \"distribution\": {}, \"violations\": [{}]}}",
        jstr(tier),
        seed,
        evaluations,
        cx.out.n,
        cx.n_violations,
        cx.feat.json(),
        cx.violations.iter().map(|v| jstr(v)).collect::<Vec<_>>().join(", ")
    );
    cx.out.finish(&stats);
}
