//! C03: no byte string makes decoding panic, overflow, hang or index out of bounds.
//! Structured mutation of valid files (prefixes, field corruption, chunk surgery, dimension disagreements), full public
//! API call sequence under catch_unwind in a checked (debug) build, with a watchdog.
use crate::c10::{api_sequence, TestReader};
use crate::corpus;
use crate::mux::*;
use crate::util::*;
use std::rc::Rc;
use std::sync::mpsc;
use std::time::{Duration, Instant};

fn run_one(bytes: Vec<u8>) -> Result<(Vec<String>, f64), String> {
    let t = Instant::now();
    let data = Rc::new(bytes);
    let (r, _, fired) = TestReader::new(data, 0, None);
    let res = catch(std::panic::AssertUnwindSafe(|| api_sequence(r, &fired)));
    res.map(|(v, _)| (v, t.elapsed().as_secs_f64()))
}

/// offsets of interesting little-endian fields: (offset, width in bytes, label)
fn fields(file: &[u8]) -> Vec<(usize, usize, &'static str)> {
    let mut f = vec![(4usize, 4usize, "riff_size")];
    let mut pos = 12;
    while pos + 8 <= file.len() {
        let cc = [file[pos], file[pos + 1], file[pos + 2], file[pos + 3]];
        let sz = u32::from_le_bytes([file[pos + 4], file[pos + 5], file[pos + 6], file[pos + 7]]) as usize;
        f.push((pos, 4, "fourcc"));
        f.push((pos + 4, 4, "chunk_size"));
        let p = pos + 8;
        match &cc {
            b"VP8X" => { f.push((p, 1, "vp8x_flags")); f.push((p + 4, 3, "canvas_w")); f.push((p + 7, 3, "canvas_h")); }
            b"ANIM" => { f.push((p, 4, "bgcolor")); f.push((p + 4, 2, "loops")); }
            b"ANMF" => {
                for (i, l) in ["frame_x", "frame_y", "frame_w", "frame_h", "duration"].iter().enumerate() { f.push((p + 3 * i, 3, l)); }
                f.push((p + 15, 1, "frame_flags"));
                // sub-chunks
                let mut q = p + 16;
                let end = (p + sz).min(file.len());
                while q + 8 <= end {
                    let scc = [file[q], file[q + 1], file[q + 2], file[q + 3]];
                    let ssz = u32::from_le_bytes([file[q + 4], file[q + 5], file[q + 6], file[q + 7]]) as usize;
                    f.push((q, 4, "sub_fourcc"));
                    f.push((q + 4, 4, "sub_size"));
                    payload_fields(&scc, q + 8, &mut f);
                    q += 8 + ssz + (ssz & 1);
                }
            }
            _ => payload_fields(&cc, p, &mut f),
        }
        pos += 8 + sz + (sz & 1);
    }
    f.retain(|(o, w, _)| o + w <= file.len());
    f
}
fn payload_fields(cc: &[u8; 4], p: usize, f: &mut Vec<(usize, usize, &'static str)>) {
    match cc {
        b"VP8 " => { f.push((p, 3, "vp8_tag")); f.push((p + 3, 3, "vp8_magic")); f.push((p + 6, 2, "vp8_w")); f.push((p + 8, 2, "vp8_h")); f.push((p + 10, 4, "vp8_hdr")); }
        b"VP8L" => { f.push((p, 1, "vp8l_sig")); f.push((p + 1, 4, "vp8l_dims")); f.push((p + 5, 4, "vp8l_hdr")); }
        b"ALPH" => { f.push((p, 1, "alph_hdr")); f.push((p + 1, 4, "alph_data")); }
        _ => {}
    }
}

fn put(file: &mut [u8], off: usize, w: usize, v: u64) {
    for i in 0..w { file[off + i] = (v >> (8 * i)) as u8; }
}
fn get(file: &[u8], off: usize, w: usize) -> u64 {
    (0..w).map(|i| (file[off + i] as u64) << (8 * i)).sum()
}

pub fn run(tier: &str, seed: u64, outdir: &str, extra: &[String]) {
    let out = Out::new(outdir);
    let mut rng = Rng::new(seed);
    let thorough = tier == "thorough";
    let mut violations: Vec<String> = vec![];
    let mut mutants: Vec<(String, Vec<u8>)> = vec![];
    let mut dist = std::collections::BTreeMap::new();

    if tier == "replay" {
        for l in std::fs::read_to_string(&extra[0]).unwrap().lines() {
            let ws: Vec<&str> = l.split_whitespace().collect();
            if ws.len() == 2 && ws[0] == "file" { mutants.push(("replay".into(), unhex(ws[1]))); }
        }
    } else {
        let mut files = corpus::test_images(if thorough { 200_000 } else { 30_000 });
        files.extend(corpus::generated_stills(&mut rng, if thorough { 60 } else { 24 }, 12));
        files.extend(corpus::generated_animations(&mut rng, if thorough { 40 } else { 16 }, 10));
        // dimension disagreements in every container position: re-mux frames with wrong declared sizes
        for it in &files {
            let f = &it.bytes;
            mutants.push((format!("{}:orig", it.name), f.clone()));
            // prefixes
            let step = if f.len() <= 400 { 1 } else { (f.len() / if thorough { 400 } else { 120 }).max(1) };
            let mut n = 0;
            while n < f.len() { mutants.push((format!("{}:prefix{}", it.name, n), f[..n].to_vec())); n += step; }
            // field corruption
            for (off, w, label) in fields(f) {
                let cur = get(f, off, w);
                let max = if w >= 8 { u64::MAX } else { (1u64 << (8 * w)) - 1 };
                let mut vals = vec![0, 1, max, max - 1, cur.wrapping_add(1) & max, cur.wrapping_sub(1) & max, cur ^ 1, cur ^ (1 << (8 * w - 1)), rng.next() & max];
                if w == 4 { vals.extend_from_slice(&[0x7fff_ffff, 0x8000_0000, 0xffff_fff6, f.len() as u64, (f.len() as u64).wrapping_sub(off as u64)]); }
                if w == 3 { vals.extend_from_slice(&[16383, 16384, 0x3fff, 0x4000]); }
                if w == 2 { vals.extend_from_slice(&[0x3fff, 0x4000, 0x7fff, 0xc001]); }
                for v in vals {
                    if v == cur { continue; }
                    let mut m = f.clone();
                    put(&mut m, off, w, v);
                    mutants.push((format!("{}:{}@{}={:#x}", it.name, label, off, v), m));
                }
            }
            // chunk surgery: drop, duplicate, swap, truncate payload by one
            let cs = parse_chunks(f);
            if cs.len() >= 2 && cs.len() <= 12 {
                for i in 0..cs.len() {
                    let mut a = cs.clone(); a.remove(i); mutants.push((format!("{}:drop{}", it.name, i), riff(&a)));
                    let mut b = cs.clone(); let c = b[i].clone(); b.insert(i, c); mutants.push((format!("{}:dup{}", it.name, i), riff(&b)));
                    if i + 1 < cs.len() { let mut c = cs.clone(); c.swap(i, i + 1); mutants.push((format!("{}:swap{}", it.name, i), riff(&c))); }
                    if !cs[i].1.is_empty() { let mut d = cs.clone(); d[i].1.pop(); mutants.push((format!("{}:short{}", it.name, i), riff(&d))); }
                }
            }
            // random byte noise in the payload area
            for k in 0..(if thorough { 40 } else { 12 }) {
                let mut m = f.clone();
                for _ in 0..(1 + rng.below(4)) { let i = rng.below(m.len() as u64) as usize; m[i] = rng.byte(); }
                mutants.push((format!("{}:noise{}", it.name, k), m));
            }
        }
        // VP8L field sabotage: legal-stream generator with numeric fields (sizes, bit counts, max_symbol, cache bits, palette
        // sizes, transform bits, extra bits ...) forced to extreme values; the result is wrapped as a simple lossless file
        {
            use crate::gen_vp8l;
            let n = if thorough { 30000 } else { 5000 };
            let mut p = gen_vp8l::Params::full();
            p.deep = false;
            for k in 0..n {
                let one_in = *rng.pick(&[3u64, 6, 12, 24, 64]);
                let sseed = rng.next();
                gen_vp8l::SABOTAGE.with(|c| c.set(Some((sseed | 1, one_in))));
                let g = catch(std::panic::AssertUnwindSafe(|| gen_vp8l::generate(sseed, &p, false)));
                gen_vp8l::SABOTAGE.with(|c| c.set(None));
                if let Ok(gs) = g {
                    if gs.payload.len() <= 20000 {
                        mutants.push((format!("vp8lgen{}:sabotage1in{}", k, one_in), riff(&[(fourcc("VP8L"), gs.payload)])));
                    }
                }
            }
        }
        // VP8 extremes: key frames from the frame writer with the quantiser forced to the top of its range, then the token
        // partitions overwritten with constant / random bytes (all-ones tokens decode to the largest coefficients the
        // format can express); wrapped as a simple lossy file
        {
            use crate::gen_vp8;
            let n = if thorough { 6000 } else { 1200 };
            let opts = gen_vp8::GenOpts { max_dim: 40, wide_pct: 50, lf_ambiguous_pct: 20, colorspace_pct: 0 };
            for k in 0..n {
                let (mut spec, _, _) = gen_vp8::random_spec(&mut rng, &opts);
                if rng.chance(3, 4) { spec.yac_qi = *rng.pick(&[127u8, 127, 126, 120, 100]); }
                let w = catch(std::panic::AssertUnwindSafe(|| gen_vp8::write_frame(&spec)));
                let Ok(w) = w else { continue };
                let mut payload = w.payload;
                let nparts = w.part_sizes.len().saturating_sub(1).max(1);
                let tok = (10 + w.part_sizes.first().copied().unwrap_or(0) + 3 * (nparts - 1)).min(payload.len());
                let fill = rng.below(5);
                for b in payload[tok..].iter_mut() {
                    *b = match fill { 0 => 0xff, 1 => 0x00, 2 => 0xaa, 3 => rng.byte(), _ => *b };
                }
                if rng.chance(1, 3) { let extra = rng.range(1, 64) as usize; payload.extend(std::iter::repeat(0xffu8).take(extra)); }
                mutants.push((format!("vp8gen{}:extremes{}", k, fill), riff(&[(fourcc("VP8 "), payload)])));
            }
        }
        // cross-frame disagreements: take frames from one animation and put them under the ANMF headers of another
        let anims: Vec<_> = files.iter().filter(|i| i.kind == "animated").collect();
        for (ai, a) in anims.iter().enumerate() {
            let b = anims[(ai + 1) % anims.len()];
            let (ca, cb) = (parse_chunks(&a.bytes), parse_chunks(&b.bytes));
            let fb: Vec<_> = cb.iter().filter(|c| &c.0 == b"ANMF").collect();
            let mut k = 0;
            let mut m = ca.clone();
            for c in m.iter_mut() {
                if &c.0 == b"ANMF" && !fb.is_empty() {
                    let donor = fb[k % fb.len()];
                    let mut p = c.1[..16.min(c.1.len())].to_vec();
                    p.extend_from_slice(&donor.1[16.min(donor.1.len())..]);
                    c.1 = p;
                    k += 1;
                }
            }
            mutants.push((format!("{}:frames_of_{}", a.name, b.name), riff(&m)));
        }
    }

    // worker with watchdog
    let (tx, rx) = mpsc::channel::<(usize, Vec<u8>)>();
    let (rtx, rrx) = mpsc::channel::<(usize, Result<(Vec<String>, f64), String>)>();
    std::thread::Builder::new().stack_size(64 << 20).spawn(move || {
        while let Ok((i, b)) = rx.recv() {
            let r = run_one(b);
            if rtx.send((i, r)).is_err() { break; }
        }
    }).unwrap();

    let (mut ok_new, mut err_new, mut panics, mut slow) = (0u64, 0u64, 0u64, 0u64);
    let mut max_time = 0f64;
    let mut err_kinds = std::collections::BTreeMap::new();
    let mut panic_kinds: std::collections::BTreeMap<String, u64> = std::collections::BTreeMap::new();
    for (i, (name, bytes)) in mutants.iter().enumerate() {
        *dist.entry(name.split(':').nth(1).unwrap_or("?").trim_end_matches(|c: char| c.is_ascii_digit() || c == '@' || c == '=' || c == '#' || c == 'x' || c.is_ascii_hexdigit()).to_string()).or_insert(0u64) += 1;
        tx.send((i, bytes.clone())).unwrap();
        // bound: generous constant + proportional to the input (declared pixel counts are capped by the 64 MiB buffer guard)
        let limit = Duration::from_secs_f64(20.0 + bytes.len() as f64 / 5.0e4);
        match rrx.recv_timeout(limit) {
            Ok((_, Ok((res, t)))) => {
                if res.first().map(|s| s == "new:OK").unwrap_or(false) { ok_new += 1 } else { err_new += 1 }
                for r in &res { if r.ends_with(":ERR") { *err_kinds.entry(r.split(':').next().unwrap().to_string()).or_insert(0u64) += 1; } }
                max_time = max_time.max(t);
                if t > 5.0 { slow += 1; }
            }
            Ok((_, Err(p))) => {
                panics += 1;
                let key: String = p.chars().map(|c| if c.is_ascii_digit() { '#' } else { c }).collect();
                *panic_kinds.entry(format!("{} @ {}", key, name.split(':').nth(1).unwrap_or("?").split('@').next().unwrap_or("?").trim_end_matches(|c: char| c.is_ascii_digit()))).or_insert(0u64) += 1;
                if violations.len() < 30 { violations.push(format!("file {} : PANIC {} [{}]", hex(bytes), p.replace('\n', " "), name)); }
            }
            Err(_) => {
                violations.push(format!("file {} : TIMEOUT after {:?} [{}]", hex(bytes), limit, name));
                break;
            }
        }
    }
    let stats = format!(
        "{{\"evaluations\": {}, \"new_ok\": {}, \"new_err\": {}, \"panics\": {}, \"slower_than_5s\": {}, \"max_time_s\": {:.3}, \"mutation_kinds\": {{{}}}, \"errors_by_call\": {{{}}}, \"panic_kinds\": {{{}}}, \"violations\": [{}]}}",
        mutants.len(), ok_new, err_new, panics, slow, max_time,
        dist.iter().map(|(k, v)| format!("{}: {}", jstr(k), v)).collect::<Vec<_>>().join(", "),
        err_kinds.iter().map(|(k, v)| format!("{}: {}", jstr(k), v)).collect::<Vec<_>>().join(", "),
        panic_kinds.iter().map(|(k, v)| format!("{}: {}", jstr(k), v)).collect::<Vec<_>>().join(", "),
        violations.iter().map(|v| jstr(v)).collect::<Vec<_>>().join(", "));
    out.finish(&stats);
    std::process::exit(0);
}
