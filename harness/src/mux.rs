//! Minimal RIFF/WebP container parser and muxer used by the corpus builders (independent of the crate under test).
pub type Chunk = ([u8; 4], Vec<u8>);

pub fn fourcc(s: &str) -> [u8; 4] {
    let b = s.as_bytes();
    [b[0], b[1], b[2], b[3]]
}

/// top-level chunks of a RIFF/WEBP file (lenient: stops at the first malformed chunk)
pub fn parse_chunks(file: &[u8]) -> Vec<Chunk> {
    let mut v = vec![];
    if file.len() < 12 || &file[0..4] != b"RIFF" || &file[8..12] != b"WEBP" {
        return v;
    }
    parse_chunk_list(&file[12..], &mut v);
    v
}

pub fn parse_chunk_list(mut data: &[u8], v: &mut Vec<Chunk>) {
    while data.len() >= 8 {
        let cc = [data[0], data[1], data[2], data[3]];
        let sz = u32::from_le_bytes([data[4], data[5], data[6], data[7]]) as usize;
        if data.len() < 8 + sz {
            break;
        }
        v.push((cc, data[8..8 + sz].to_vec()));
        let adv = 8 + sz + (sz & 1);
        if data.len() < adv {
            break;
        }
        data = &data[adv..];
    }
}

pub fn write_chunk(out: &mut Vec<u8>, cc: &[u8; 4], payload: &[u8]) {
    out.extend_from_slice(cc);
    out.extend_from_slice(&(payload.len() as u32).to_le_bytes());
    out.extend_from_slice(payload);
    if payload.len() % 2 == 1 {
        out.push(0);
    }
}

pub fn riff(chunks: &[Chunk]) -> Vec<u8> {
    let mut body = b"WEBP".to_vec();
    for (cc, p) in chunks {
        write_chunk(&mut body, cc, p);
    }
    let mut out = b"RIFF".to_vec();
    out.extend_from_slice(&(body.len() as u32).to_le_bytes());
    out.extend_from_slice(&body);
    out
}

pub fn u24(v: u32) -> [u8; 3] {
    [v as u8, (v >> 8) as u8, (v >> 16) as u8]
}

pub const FLAG_ANIM: u8 = 0x02;
pub const FLAG_XMP: u8 = 0x04;
pub const FLAG_EXIF: u8 = 0x08;
pub const FLAG_ALPHA: u8 = 0x10;
pub const FLAG_ICC: u8 = 0x20;

pub fn vp8x(flags: u8, w: u32, h: u32) -> Chunk {
    let mut p = vec![flags, 0, 0, 0];
    p.extend_from_slice(&u24(w - 1));
    p.extend_from_slice(&u24(h - 1));
    (fourcc("VP8X"), p)
}

pub struct Frame {
    pub x: u32, // must be even
    pub y: u32,
    pub w: u32,
    pub h: u32,
    pub duration: u32,
    pub blend: bool,   // true = alpha-blend (flag bit clear)
    pub dispose: bool, // true = dispose to background
    pub chunks: Vec<Chunk>, // ALPH? + VP8 | VP8L
}

pub fn anmf(f: &Frame) -> Chunk {
    let mut p = vec![];
    p.extend_from_slice(&u24(f.x / 2));
    p.extend_from_slice(&u24(f.y / 2));
    p.extend_from_slice(&u24(f.w - 1));
    p.extend_from_slice(&u24(f.h - 1));
    p.extend_from_slice(&u24(f.duration));
    p.push((if f.blend { 0 } else { 2 }) | (if f.dispose { 1 } else { 0 }));
    for (cc, c) in &f.chunks {
        write_chunk(&mut p, cc, c);
    }
    (fourcc("ANMF"), p)
}

/// background as stored in the file: B, G, R, A
pub fn animation(canvas_w: u32, canvas_h: u32, alpha_flag: bool, bg_bgra: [u8; 4], loops: u16, frames: &[Frame]) -> Vec<u8> {
    let mut chunks = vec![vp8x(FLAG_ANIM | if alpha_flag { FLAG_ALPHA } else { 0 }, canvas_w, canvas_h)];
    let mut anim = bg_bgra.to_vec();
    anim.extend_from_slice(&loops.to_le_bytes());
    chunks.push((fourcc("ANIM"), anim));
    for f in frames {
        chunks.push(anmf(f));
    }
    riff(&chunks)
}

/// image-data chunks (ALPH, VP8, VP8L) of a still file produced by libwebp
pub fn image_chunks(file: &[u8]) -> Vec<Chunk> {
    parse_chunks(file).into_iter().filter(|(cc, _)| cc == b"ALPH" || cc == b"VP8 " || cc == b"VP8L").collect()
}

/// dimensions from a VP8 / VP8L payload header
pub fn payload_dims(cc: &[u8; 4], p: &[u8]) -> Option<(u32, u32)> {
    if cc == b"VP8L" && p.len() >= 5 && p[0] == 0x2f {
        let h = u32::from_le_bytes([p[1], p[2], p[3], p[4]]);
        Some(((h & 0x3fff) + 1, ((h >> 14) & 0x3fff) + 1))
    } else if cc == b"VP8 " && p.len() >= 10 {
        let w = u16::from_le_bytes([p[6], p[7]]) & 0x3fff;
        let h = u16::from_le_bytes([p[8], p[9]]) & 0x3fff;
        Some((w as u32, h as u32))
    } else {
        None
    }
}
