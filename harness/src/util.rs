//! Shared helpers: PRNG, hex, case/result writers.
use std::fmt::Write as _;
use std::io::Write;

/// SplitMix64: every random choice of the harness derives from one state seeded by VERIF_SEED.
#[derive(Clone)]
pub struct Rng(pub u64);
impl Rng {
    pub fn new(seed: u64) -> Self {
        Rng(seed.wrapping_mul(0x9E3779B97F4A7C15) ^ 0xD1B54A32D192ED03)
    }
    pub fn next(&mut self) -> u64 {
        self.0 = self.0.wrapping_add(0x9E3779B97F4A7C15);
        let mut z = self.0;
        z = (z ^ (z >> 30)).wrapping_mul(0xBF58476D1CE4E5B9);
        z = (z ^ (z >> 27)).wrapping_mul(0x94D049BB133111EB);
        z ^ (z >> 31)
    }
    pub fn below(&mut self, n: u64) -> u64 {
        if n == 0 { 0 } else { self.next() % n }
    }
    pub fn range(&mut self, lo: u64, hi: u64) -> u64 {
        lo + self.below(hi - lo + 1)
    }
    pub fn byte(&mut self) -> u8 {
        (self.next() >> 24) as u8
    }
    pub fn chance(&mut self, num: u64, den: u64) -> bool {
        self.below(den) < num
    }
    pub fn pick<'a, T>(&mut self, xs: &'a [T]) -> &'a T {
        &xs[self.below(xs.len() as u64) as usize]
    }
    pub fn fork(&mut self) -> Rng {
        Rng(self.next())
    }
    pub fn bytes(&mut self, n: usize) -> Vec<u8> {
        (0..n).map(|_| self.byte()).collect()
    }
}

pub fn hex(b: &[u8]) -> String {
    if b.is_empty() {
        return "-".to_string();
    }
    let mut s = String::with_capacity(b.len() * 2);
    for x in b {
        write!(s, "{:02x}", x).unwrap();
    }
    s
}

pub fn unhex(s: &str) -> Vec<u8> {
    if s == "-" {
        return vec![];
    }
    (0..s.len() / 2).map(|i| u8::from_str_radix(&s[2 * i..2 * i + 2], 16).unwrap()).collect()
}

/// Output of one harness run: the case file (read by the oracle), the implementation results (one line per
/// case) and a stats object.
pub struct Out {
    pub cases: std::io::BufWriter<std::fs::File>,
    pub results: std::io::BufWriter<std::fs::File>,
    pub dir: String,
    pub n: usize,
}
impl Out {
    pub fn new(dir: &str) -> Out {
        std::fs::create_dir_all(dir).unwrap();
        Out {
            cases: std::io::BufWriter::new(std::fs::File::create(format!("{dir}/cases.txt")).unwrap()),
            results: std::io::BufWriter::new(std::fs::File::create(format!("{dir}/impl.txt")).unwrap()),
            dir: dir.to_string(),
            n: 0,
        }
    }
    pub fn case(&mut self, case: &str, result: &str) {
        writeln!(self.cases, "{case}").unwrap();
        writeln!(self.results, "{result}").unwrap();
        self.n += 1;
    }
    pub fn finish(mut self, stats: &str) {
        self.cases.flush().unwrap();
        self.results.flush().unwrap();
        std::fs::write(format!("{}/stats.json", self.dir), stats).unwrap();
    }
}

/// minimal JSON string escaping
pub fn jstr(s: &str) -> String {
    let mut o = String::from("\"");
    for c in s.chars() {
        match c {
            '"' => o.push_str("\\\""),
            '\\' => o.push_str("\\\\"),
            '\n' => o.push_str("\\n"),
            c if (c as u32) < 0x20 => o.push_str(&format!("\\u{:04x}", c as u32)),
            c => o.push(c),
        }
    }
    o.push('"');
    o
}

thread_local! { static LAST_PANIC_LOC: std::cell::RefCell<String> = std::cell::RefCell::new(String::new()); }

/// Quiet panic hook that remembers where the panic was raised (per thread).
pub fn install_hook() {
    std::panic::set_hook(Box::new(|info| {
        let loc = info.location().map(|l| format!("{}:{}", l.file(), l.line())).unwrap_or_default();
        LAST_PANIC_LOC.with(|c| *c.borrow_mut() = loc);
    }));
}

/// Run `f`, turning a panic into Err(message at file:line).
pub fn catch<T>(f: impl FnOnce() -> T + std::panic::UnwindSafe) -> Result<T, String> {
    std::panic::catch_unwind(f).map_err(|e| {
        let msg = if let Some(s) = e.downcast_ref::<&str>() {
            s.to_string()
        } else if let Some(s) = e.downcast_ref::<String>() {
            s.clone()
        } else {
            "panic".to_string()
        };
        let loc = LAST_PANIC_LOC.with(|c| c.borrow().clone());
        format!("{} at {}", msg, loc)
    })
}
