"""C11 -- output buffers: size checked, every byte written, all wrappings agree (partial proof + direct decision).
Deciding method: Coq theorems (Properties/C11.v) that the modelled write paths determine every byte from the file alone and that
RGB output = RGBA output with alpha dropped, tied to the code by the translator (YUV kernels) and correspondence (planes, alpha
loop); the implementation is decided directly: buffers pre-filled with 0x00 / 0xFF / pattern, repeated read_image, every wrong
length, every payload through simple / VP8X (alpha flag set and clear) / single-frame animation wrappings."""
from checks.common import run_components, finish_standard, replay_standard

COMPONENTS = [
    {'name': 'c11', 'oracle': False, 'what': 'buffer length / prefill / idempotence / wrappings through the public API'},
    {'name': 'readimage', 'oracle': True, 'what': 'read_image / read_frame glue through the public API (stills with every ALPH variant, wrappings, size mismatches, wrong buffer lengths, animations with chunks between frames) vs Model.ReadImage'},
    {'name': 'c13', 'oracle': True, 'what': 'fill_rgb / fill_rgba planes', 'normalise': lambda s: s.replace(' SPECDIFF', '')},
    {'name': 'alpha', 'oracle': True, 'what': 'alpha application loop', 'normalise': lambda s: s.replace(' SPECDIFF', '')},
    {'name': 'c01model', 'oracle': True, 'extra': ['vp8l'], 'what': 'LosslessDecoder::decode_frame on whole payloads (prefilled buffers 0x00 / 0xFF / 0xA5, fill_buf schedules) vs Model.Lossless'},
]


def check(run):
    proofs_ok = run.proof_stage()
    agg, found = ({'evaluations': 0}, False)
    if run.tools_stage():
        agg, found = run_components(run, COMPONENTS, proofs_ok=proofs_ok)
    c = agg.get('components', {}).get('c11', {})
    return finish_standard(run, agg, found,
        rule='corpus files (repo test images + libwebp-generated stills and animations): output_buffer_size formula; read_image into 0x00-, 0xFF- and '
             'pattern-filled buffers and repeated; six wrong lengths (must fail and leave the buffer untouched); each still payload re-wrapped as simple / '
             'VP8X alpha flag 0 and 1 / single full-canvas no-blend ANMF frame with alpha flag 0 and 1, all compared (lossless payloads also against libwebp).',
        distinct_key=int(c.get('wrapping_decodes', 0)) + int(c.get('prefill_idempotence_checks', 0)),
        assumptions=['wrappings_agree for animation frames only with the do-not-blend flag (with blending the result is the C06 composition by definition)'])


def replay(run, path):
    return replay_standard(run, path, 'c11')
