"""Helpers shared by the per-property check modules."""
import json, pathlib
import vflib


def correspondence(run, check, tier=None, extra=(), release=False, shards=16, normalise=None, timeout=3600):
    """run the harness (implementation side), the oracle (model side), diff.  Returns (stats, n, diffs) or None"""
    tier = tier or run.tier
    ok, out, stats = vflib.run_harness(check, tier, run.seed, run.rundir, extra=extra, release=release, timeout=timeout)
    if not ok:
        run.oblige('harness_run(%s)' % check, False, out[-3000:])
        return None
    cf = run.rundir / 'cases.txt'
    if cf.exists() and cf.stat().st_size > 0:
        oko, logo = vflib.run_oracle_sharded(str(cf), str(run.rundir / 'model.txt'), shards=shards, timeout=timeout)
        if not oko:
            run.oblige('oracle_run(%s)' % check, False, logo[-3000:])
            return None
        n, diffs = vflib.diff_results(run.rundir, normalise=normalise)
    else:
        n, diffs = 0, []
    return stats, n, diffs


def sample_cases(run, k=6):
    try:
        cases = (run.rundir / 'cases.txt').read_text().split('\n')
        res = (run.rundir / 'impl.txt').read_text().split('\n')
        step = max(1, len(cases) // k)
        return [{'case': cases[i][:400], 'impl': res[i][:400]} for i in range(0, len(cases) - 1, step)][:k]
    except Exception:
        return []
