"""Helpers shared by the per-property check modules."""
import json, pathlib
import vflib


def correspondence(run, check, tier=None, extra=(), release=False, shards=16, normalise=None, timeout=3600):
    """run the harness (implementation side), the oracle (model side), diff.  Returns (stats, n, diffs) or None"""
    tier = tier or run.tier
    ok, out, stats = vflib.run_harness(check, tier, run.seed, run.rundir, extra=extra, release=release, timeout=timeout)
    if not ok:
        run.oblige('harness_run(%s)' % check, False, out[-3000:])
        return None
    cf = run.rundir / 'cases.txt'
    if not getattr(run, 'oracle_ok', True):
        return stats, 0, []
    if cf.exists() and cf.stat().st_size > 0:
        oko, logo = vflib.run_oracle_sharded(str(cf), str(run.rundir / 'model.txt'), shards=shards, timeout=timeout)
        if not oko:
            run.oblige('oracle_run(%s)' % check, False, logo[-3000:])
            return None
        n, diffs = vflib.diff_results(run.rundir, normalise=normalise)
    else:
        n, diffs = 0, []
    return stats, n, diffs


def sample_cases(run, k=6):
    try:
        cases = (run.rundir / 'cases.txt').read_text().split('\n')
        res = (run.rundir / 'impl.txt').read_text().split('\n')
        step = max(1, len(cases) // k)
        return [{'case': cases[i][:400], 'impl': res[i][:400]} for i in range(0, len(cases) - 1, step)][:k]
    except Exception:
        return []


def run_components(run, components, tier=None, proofs_ok=True):
    """components: list of dicts {name: harness check, oracle: bool, what: text, normalise: fn|None, known: {substring: class}}
    Runs each harness component (and the oracle when it has cases), records correspondence obligations, turns the
    implementation-side property violations into VIOLATION replays (first one per component), returns aggregate stats."""
    import shutil
    agg = {'evaluations': 0, 'components': {}, 'corr_cases': 0, 'corr_diffs': 0}
    found_input = False
    samples = []
    known = vflib.known_findings(run.prop)
    base_rundir = run.rundir
    for c in components:
        name = c['name']
        run.rundir = base_rundir / name
        run.rundir.mkdir(parents=True, exist_ok=True)
        t = tier or run.tier
        if not proofs_ok and c.get('escalate', True):
            t = 'thorough'
        ok, out, stats = vflib.run_harness(name, t, run.seed, run.rundir, extra=c.get('extra', ()), timeout=c.get('timeout', 3000))
        if not ok:
            run.oblige('harness_run(%s)' % name, False, out[-2000:])
            continue
        n, diffs = 0, []
        cf = run.rundir / 'cases.txt'
        if c.get('oracle') and getattr(run, 'oracle_ok', True) and cf.exists() and cf.stat().st_size > 0:
            oko, logo = vflib.run_oracle_sharded(str(cf), str(run.rundir / 'model.txt'), timeout=c.get('timeout', 3000))
            if not oko:
                run.oblige('oracle_run(%s)' % name, False, logo[-2000:])
            else:
                n, diffs = vflib.diff_results(run.rundir, normalise=c.get('normalise'))
                run.oblige('correspondence(%s: implementation = Model on %d cases)' % (c.get('what', name), n), not diffs, json.dumps(diffs[:2])[:1500])
                sd = [l for l in (run.rundir / 'model.txt').read_text().split('\n') if 'SPECDIFF' in l]
                if sd:
                    run.oblige('model_equals_spec_on_cases(%s)' % name, False, 'SPECDIFF on %d cases' % len(sd))
        agg['evaluations'] += int(stats.get('evaluations', 0))
        agg['corr_cases'] += n
        agg['corr_diffs'] += len(diffs)
        agg['components'][name] = {k: v for k, v in stats.items() if k not in ('violations', 'samples')}
        samples += sample_cases(run, 2) or [{'component': name, 'sample': s} for s in stats.get('samples', [])[:2]]
        # known-finding classes: harness reports them as counters named known_<class>
        for k, v in stats.items():
            if k.startswith('known_') and isinstance(v, int) and v > 0:
                cls = k[len('known_'):]
                if cls in known:
                    run.known('%s %s: %d cases (%s)' % (known[cls][0], cls, v, name))
                else:
                    run.violation('%s_%s' % (name, cls), {'what': 'class %s observed but not listed in known_findings.txt' % cls, 'check': name, 'count': v})
                    found_input = True
        vs = stats.get('violations', [])
        if vs:
            v = vs[0]
            case = v.split(' : ')[0] if ' : ' in v else v
            run.violation('%s_property' % name, {'what': c.get('what', name) + ': implementation violates the property', 'check': name,
                                                 'case': case, 'detail': v[-600:], 'more': len(vs) - 1})
            found_input = True
    run.rundir = base_rundir
    agg['samples'] = samples
    return agg, found_input


def finish_standard(run, agg, found_input, rule, distinct_key=None, assumptions=None, extra=None):
    failed = [o for o in run.obligations if not o[1]]
    if failed and not found_input:
        run.violation('obligation', {'what': 'proof obligation or model/code tie no longer checks; search found no failing input',
                                     'failed': [{'name': o[0], 'detail': o[2][-1500:]} for o in failed],
                                     'search': {'evaluations': agg.get('evaluations')}}, no_input=True)
    cov = {'correspondence_cases': agg.get('corr_cases'), 'correspondence_disagreements': agg.get('corr_diffs'),
           'components': agg.get('components')}
    if extra:
        cov.update(extra)
    distinct = agg.get('evaluations', 0) if distinct_key is None else distinct_key
    return run.finish(samples=agg.get('samples') or ['(no sample)'], rule=rule, evaluations=agg.get('evaluations', 0),
                      distinct=distinct, extra_cov=cov, assumptions=assumptions or [])


def replay_standard(run, path, default_check):
    p = json.loads(open(path).read())
    run.tools_stage()
    cf = run.rundir / 'replay_cases.txt'
    cf.write_text(p.get('case', '') + '\n')
    name = p.get('check', default_check)
    ok, out, stats = vflib.run_harness(name, 'replay', run.seed, run.rundir, extra=[str(cf)])
    print(json.dumps({k: v for k, v in stats.items() if k != 'samples'}, indent=1)[:4000])
    if stats.get('violations'):
        print('VIOLATION property=%s replay=%s' % (run.prop, path))
        return 1
    return 0
