"""C10 -- results independent of reader chunking; I/O faults surface as errors (partial proof + direct decision).
Deciding method: Coq theorems over the std::io contract model with explicit delivery schedules (Lib/IO.v: read_exact,
write_all) and, when present, the bit reader's two refill paths; the implementation is decided directly under wrapped
readers (schedules 1,2,3,7,8,9,64,random bytes per call; one injected fault at every I/O call index) and writers
(fault at every write call; sinks accepting 1,2,3,7,64 bytes per write)."""
from checks.common import run_components, finish_standard, replay_standard

COMPONENTS = [
    {'name': 'c10', 'oracle': False, 'what': 'public API under scheduled / failing readers and writers'},
    {'name': 'c10io', 'oracle': True, 'what': 'Model.ContainerIO (new, metadata getters, read_frame header over scheduled / failing readers: outcome, chunk table, I/O call counts)'},
    {'name': 'c10glue', 'oracle': True, 'timeout': 3000, 'what': 'WebPDecoder::new + read_image (stills: VP8, VP8L, ALPH raw / lossless) over a scheduled reader failing at every I/O call index: outcome with error variant, pixels, call counts vs Model.ReadImageIO'},
    {'name': 'c10lossless', 'oracle': True, 'what': 'LosslessDecoder::decode_frame over a scheduled reader whose fill_buf fails at call k (every k, or a sample incl. first / last / last+1): outcome with exact error variant and call count vs Model.LosslessIO'},
    {'name': 'c10bits', 'oracle': True, 'what': 'BitReader scripts over a scheduled reader whose fill_buf fails at call k (every k of the fault-free run): values, outcome class, call count, final state vs Model.BitReaderIO'},
    {'name': 'c01model', 'oracle': True, 'extra': ['bitreader'], 'what': 'Model.BitReader scripts (fill / read_bits / consume / peek+consume) under fill_buf schedules vs BitReader through hooks'},
]


def check(run):
    proofs_ok = run.proof_stage()
    agg, found = ({'evaluations': 0}, False)
    if run.tools_stage():
        agg, found = run_components(run, COMPONENTS, proofs_ok=proofs_ok)
    c = agg.get('components', {}).get('c10', {})
    return finish_standard(run, agg, found,
        rule='corpus files x schedules {1,2,3,7,8,9,64,random} (results must equal the whole-file baseline call by call) + one injected failure '
             'at each I/O call index of new + accessors + metadata + read_image + read_frame* (the call in which it fires must return Err, no panic) '
             '+ encoder sinks failing at every write call / splitting writes. Non-trivial = runs with a non-trivial schedule or a fault.',
        distinct_key=int(c.get('schedule_runs', 0)) + int(c.get('fault_runs', 0)) + int(c.get('encoder_fault_runs', 0)),
        assumptions=['real OS readers and the Interrupted retry loops inside std are not modelled',
                     'UnexpectedEof faults are not injected: the chunk scan of read_data deliberately treats UnexpectedEof as end of file'])


def replay(run, path):
    return replay_standard(run, path, 'c10')
