"""C15 -- the boolean entropy decoder equals the RFC 6386 section 7 reference decoder on every path, and reports
exhaustion exactly when the requests consumed more than one byte beyond the data.
Deciding method: Coq theorems (Properties/C15.v: arith_refines_rfc, arith_no_panic, arith_step_safe, fast_equals_cold,
spec_registers_small, first_byte_ff_counterexample) over Model.ArithDec, the hand-written mirror of
vp8_arithmetic_decoder.rs (prepare_branch / value_from_branch and the tree arrays regenerated from vp8.rs by rs2v);
correspondence of the model through hook verif::arith_script on request scripts (all byte strings of length 0..2 x 40
scripts, length 3 x 4 scripts, random lengths 4..64); the oracle prints Model and Spec runs, and the theorem is re-tested
on every sampled case (M = S before exhaustion, exhaustion flag = `more than length + 1 bytes needed`);
search = the harness's native decision against a Rust transcription of the RFC decoder on every evaluated case.
Inputs whose first byte is 0xFF are outside the theorem (Properties/C15.v explains why): they are run (no panic,
model = implementation) and counted as excluded_first_byte_ff, not decided against the reference."""
import json
import vflib
from checks.common import correspondence, sample_cases


def model_part(s):
    return s.split(' | ')[0]


def theorem_on_cases(run):
    """M-vs-S on the oracle output: returns (tested, excluded_ff, failures)"""
    cases = (run.rundir / 'cases.txt').read_text().split('\n')
    lines = (run.rundir / 'model.txt').read_text().split('\n')
    bad, tested, ff = [], 0, 0
    for c, l in zip(cases, lines):
        if ' | ' not in l:
            continue
        ws = c.split()
        m, s = l.split(' | ')
        if len(ws) == 3 and ws[1].startswith('ff'):
            ff += 1
            if not m.startswith('M ') or 'eof=' not in m:
                bad.append(c + ' -> ' + l)      # safety holds for every input
            continue
        tested += 1
        mw, sw = m.split(), s.split()
        if mw[0] != 'M' or not mw[-1].startswith('eof='):
            bad.append(c + ' -> ' + l)
            continue
        mv, eof = ([] if mw[1:-1] == ['-'] else mw[1:-1]), mw[-1][4:]
        sv, ex, k = ([] if sw[1:-2] == ['-'] else sw[1:-2]), sw[-2][3:], sw[-1][2:]
        lim = len(sv) if k == '-' else int(k)
        if eof != ex or len(mv) != len(sv) or mv[:lim] != sv[:lim]:
            bad.append(c + ' -> ' + l)
    return tested, ff, bad


def check(run):
    proofs_ok = run.proof_stage()
    tools_ok = run.tools_stage()
    stats, n, diffs, found, tested, ff = {}, 0, [], False, 0, 0
    if tools_ok:
        tier = run.tier if proofs_ok else 'thorough'
        r = correspondence(run, 'c15', tier=tier, normalise=model_part)
        if r:
            stats, n, diffs = r
            run.oblige('correspondence(arith_script: implementation = Model on %d scripts)' % n, not diffs, json.dumps(diffs[:2])[:1500])
            tested, ff, bad = theorem_on_cases(run)
            run.oblige('theorem_on_cases(Model = Spec before exhaustion, exhaustion flag exact, on %d cases; %d first-byte-0xFF cases: safety only)' % (tested, ff),
                       not bad, json.dumps(bad[:2])[:1500])
            if (diffs or bad) and tier != 'thorough':
                r2 = correspondence(run, 'c15', tier='thorough', normalise=model_part)
                if r2:
                    stats, n, diffs = r2
            for v in stats.get('violations', [])[:1]:
                run.violation('arith_property', {'what': 'implementation differs from the RFC 6386 section 7 reference decoder (values before exhaustion, or the exhaustion flag)',
                                                 'case': v.split(' : ')[0], 'detail': v[-400:]})
                found = True
    failed = [o for o in run.obligations if not o[1]]
    if failed and not found:
        run.violation('obligation', {'what': 'proof obligation or model/code tie no longer checks; search found no failing input',
                                     'failed': [{'name': o[0], 'detail': o[2][-1500:]} for o in failed],
                                     'search': {k: stats.get(k) for k in ('evaluations', 'values_compared', 'exhausted_runs')}}, no_input=True)
    return run.finish(
        samples=sample_cases(run),
        rule='every byte string of length 0..2 x 40 scripts (8 fixed + 32 seeded, all op kinds), length 3 (stride 13; all in thorough) x 4 scripts, '
             'seeded random lengths 4..64 (every length mod 4; all-zero, all-0xFF and random data) with scripts grown until the reference needs '
             'about len/2, len, len+2 or 2*len bytes and then trimmed by 0..3 requests, so runs end inside the chunks, inside the final bytes, on the '
             'tolerated extra byte and beyond. Non-trivial = runs that leave the fast path (cold_path_runs).',
        evaluations=stats.get('evaluations', 0), distinct=stats.get('cold_path_runs', 0),
        extra_cov={'correspondence_cases': n, 'correspondence_disagreements': len(diffs), 'theorem_tested_on_cases': tested,
                   'input_distribution': {k: stats.get(k) for k in ('len_mod4', 'len_0_1_2_3', 'max_len', 'op_kinds', 'exhausted_runs', 'cold_path_runs',
                                                                    'fast_path_only_runs', 'ended_in_last_chunk', 'ended_in_final_bytes',
                                                                    'ended_on_tolerated_extra_byte', 'values_compared', 'panics')},
                   'excluded_first_byte_ff': stats.get('excluded_first_byte_ff'),
                   'first_byte_ff_differs_from_unbounded_reference': stats.get('first_byte_ff_differs_from_unbounded_reference')},
        assumptions=['Model/ArithDec.v is a hand-written mirror of vp8_arithmetic_decoder.rs (tied by correspondence through verif::arith_script); '
                     'prepare_branch, value_from_branch, the tree arrays and FINAL_BYTES_REMAINING_EOF are the rs2v translation (regenerated this run)',
                     'four rows of COEFF_PROBS are hand-copied into Model/ArithDec.v (type alias not picked up by rs2v); tied by correspondence',
                     'Spec/RfcBoolDec.v transcribes RFC 6386 section 7.3 (the RFC text is not available offline; libwebp is the cross-check in C02)',
                     'partitions whose first byte is 0xFF are outside arith_refines_rfc (see first_byte_ff_counterexample); safety is proved for them too'])


def replay(run, path):
    p = json.loads(open(path).read())
    run.tools_stage()
    cf = run.rundir / 'replay_cases.txt'
    cf.write_text(p.get('case', '') + '\n')
    ok, out, stats = vflib.run_harness('c15', 'replay', run.seed, run.rundir, extra=[str(cf)])
    print(json.dumps(stats, indent=1))
    if stats.get('violations'):
        print('VIOLATION property=C15 replay=%s' % path)
        return 1
    return 0
