"""C03 -- no byte string makes decoding panic, overflow, hang or index out of bounds (partial proof + direct search).
Deciding method: Coq safety theorems (Properties/C03.v: no Panic outcome) for the modelled components, tied to the code by
translator / correspondence; the rest of the decoder is covered by the direct search on the implementation (structured
mutation, full API call sequence, checked build, watchdog)."""
from checks.common import run_components, finish_standard, replay_standard

COMPONENTS = [
    {'name': 'c03', 'oracle': False, 'what': 'structured mutation of valid files, full public API sequence, checked build'},
    {'name': 'alpha', 'oracle': True, 'what': 'alpha application loop'},
    {'name': 'c01model', 'oracle': True, 'extra': ['huff'], 'what': 'Model.Huffman build_implicit / build_two_node / read_symbol (Ok, Err or panic kind) vs HuffmanTree through hooks'},
    {'name': 'readimage', 'oracle': True, 'what': 'read_image / read_frame glue on valid, damaged and truncated files vs Model.ReadImage (error variants, no panic)'},
    {'name': 'c08', 'oracle': True, 'what': 'container layer on well-formed and malformed files (error class and no panic)'},
]


def check(run):
    proofs_ok = run.proof_stage()
    agg, found = ({'evaluations': 0}, False)
    if run.tools_stage():
        agg, found = run_components(run, COMPONENTS, proofs_ok=proofs_ok)
    c = agg.get('components', {}).get('c03', {})
    return finish_standard(run, agg, found,
        rule='every corpus file (repo test images + libwebp-generated stills/animations): all prefixes (strided for large files), every '
             'header/size/dimension/offset field set to {0,1,max,max-1,+-1,bit flips,special}, chunk drop/dup/swap/shorten, byte noise, frames of '
             'one animation under the ANMF headers of another; each mutant: new + accessors + metadata + read_image + read_frame to exhaustion '
             'under catch_unwind with a watchdog. Non-trivial = mutants (distinct by construction).',
        distinct_key=c.get('evaluations', 0),
        assumptions=['panic = any unwinding panic of the debug (overflow-checked) build; abort-type failures (stack overflow, OOM) would kill the harness and fail the check',
                     'time bound: watchdog of 20 s + len/50kB s per mutant; max observed time is reported'],
        extra={'functions_under_safety_theorem': ['alpha_blending::do_alpha_blending (+ kernels)', 'vp8::Frame::fill_rgb / fill_rgba (+ row kernels, mulhi, clip)',
                                                  'decoder.rs alpha loop + extended::get_alpha_predictor',
                                                  'decoder.rs WebPDecoder::new / read_data / read_chunk / metadata getters (every byte string)',
                                                  'vp8_arithmetic_decoder.rs (every byte string, every request script)',
                                                  'lossless_transform.rs scalar kernels, lossless.rs subsample_size'],
               'max_time_s': c.get('max_time_s'), 'panics': c.get('panics')})


def replay(run, path):
    return replay_standard(run, path, 'c03')
