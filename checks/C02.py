"""C02 -- VP8 key-frame reconstruction bit-exact (partial proof + whole-frame correspondence against the Coq Spec).
Deciding method: Coq theorems (Properties/C02.v): every table of vp8.rs = the normative table and the scalar kernels = the reference
forms, re-checked against the source-regenerated Gen files on every run; whole-frame correspondence implementation =
Spec.VP8.decode (extracted) on generated key frames; Spec adequacy against libwebp (c02spec); the harness also decides the
property natively against libwebp's WebPDecodeYUV on every input."""
from checks.common import run_components, finish_standard, replay_standard

COMPONENTS = [
    {'name': 'c02', 'oracle': True, 'what': 'Vp8Decoder::decode_frame planes vs Spec.VP8.decode (and vs libwebp natively)'},
    {'name': 'vp8parse', 'oracle': True, 'what': 'parsing functions of vp8.rs on a real Vp8Decoder (read_frame_header and its blocks, read_macroblock_header, read_residual_data, read_coefficients, init_partitions) vs Model.Vp8Parse, incl. error variants and panics'},
    {'name': 'vp8decode', 'oracle': True, 'what': 'the public Vp8Decoder::decode_frame vs Model.Vp8Decode.decode_frame on whole frames (valid, lf-ambiguous and damaged)'},
    {'name': 'vp8frame', 'oracle': True, 'what': 'parsing side of the real decode_frame_ (recorded per macroblock: modes, 384 residuals, flags, reader and context state) vs Model.Vp8Frame on whole frames'},
    {'name': 'vp8recon', 'oracle': True, 'what': 'reconstruction / loop filter pass / crop of the real decode_frame_ (recorded header, macroblocks, residuals, planes before and after filtering) vs Model.Vp8Recon; natively vs libwebp'},
    {'name': 'vp8predict', 'oracle': True, 'escalate': False, 'what': 'intra predictors, add_residue, borders, intra_predict_luma/chroma vs Model.Vp8Predict (natively vs libwebp dsp/dec.c formulas)'},
    {'name': 'c02spec', 'oracle': True, 'what': 'adequacy: Spec.VP8.decode vs libwebp WebPDecodeYUV', 'escalate': False},
]


def check(run):
    proofs_ok = run.proof_stage()
    agg, found = ({'evaluations': 0}, False)
    if run.tools_stage():
        agg, found = run_components(run, COMPONENTS, proofs_ok=proofs_ok)
    c = agg.get('components', {}).get('c02', {})
    return finish_standard(run, agg, found,
        rule='seeded random VP8 key frames from the harness writer (boolean encoder + frame program: sizes 1..80 with every residue mod 16, segmentation, '
             'quantiser deltas, filter type/level/sharpness/deltas, 1/2/4/8 partitions, probability updates, skip flags, all intra modes, tokens up to CAT6) + '
             'libwebp-encoded images with varied WebPConfig + the lossy test images; each compared sample for sample with libwebp and with the Coq Spec. '
             'Excluded from "valid" (counted separately): filter levels leaving [0,63] before the deltas (libwebp and the RFC reference differ), reserved colour-space bit set.',
        distinct_key=c.get('evaluations', 0),
        assumptions=['Spec.VP8 is written from the libwebp 1.3.1 sources (RFC 6386 text is not available offline) and validated against the compiled libwebp each run',
                     'structural links parse_link / recon_link are not proved: covered by whole-frame correspondence only',
                     'streams outside in_range (16-bit coefficient range of the reference) are excluded'])


def replay(run, path):
    return replay_standard(run, path, 'c02')
