"""C13 -- YUV->RGB equals libwebp's conversion for every sample triple.
Deciding method: Coq theorems (Properties/C13.v) over kernels regenerated from vp8.rs by tools/rs2v.py (mulhi, clip and the
per-pixel blocks of fill_rgb_row / fill_rgba_row), row/plane induction over the hand model; correspondence of the
row/plane loops through hooks verif::fill_rgb / fill_rgba; search = native comparison with a transcription of libwebp
yuv.h (all 2^24 triples x 3 positions x 2 writers in the thorough tier or whenever an obligation / the tie breaks)."""
import json
import vflib
from checks.common import correspondence, sample_cases


def check(run):
    proofs_ok = run.proof_stage()
    tools_ok = run.tools_stage()
    stats, n, diffs, found = {}, 0, [], False
    if tools_ok:
        tier = run.tier if proofs_ok else 'thorough'
        r = correspondence(run, 'c13', tier=tier, normalise=lambda s: s.replace(' SPECDIFF', ''))
        if r:
            stats, n, diffs = r
            run.oblige('correspondence(fill_rgb/fill_rgba: implementation = Model on %d planes)' % n, not diffs, json.dumps(diffs[:2])[:1500])
            mt = run.rundir / 'model.txt'
            specdiff = [l for l in (mt.read_text().split('\n') if mt.exists() else []) if 'SPECDIFF' in l]
            run.oblige('model_equals_spec_on_cases(extraction sanity)', not specdiff, 'SPECDIFF on %d cases' % len(specdiff))
            if diffs and tier != 'thorough':
                r2 = correspondence(run, 'c13', tier='thorough', normalise=lambda s: s.replace(' SPECDIFF', ''))
                if r2:
                    stats, n, diffs = r2
            for v in stats.get('violations', [])[:1]:
                run.violation('yuv_property', {'what': 'implementation output differs from libwebp yuv.h conversion', 'case': v.split(' : ')[0], 'detail': v[-400:]})
                found = True
    failed = [o for o in run.obligations if not o[1]]
    if failed and not found:
        run.violation('obligation', {'what': 'proof obligation or model/code tie no longer checks; search found no failing input',
                                     'failed': [{'name': o[0], 'detail': o[2][-1500:]} for o in failed],
                                     'search': {k: stats.get(k) for k in ('evaluations', 'distinct_triples', 'exhaustive_2pow24')}}, no_input=True)
    return run.finish(
        samples=sample_cases(run),
        rule='random planes 1..9 x 1..7 (all parities, edge-biased samples, both writers, random pre-filled buffers) + triple sweep on 3x1 planes '
             '(1/256 seeded slice of the 2^24 triples in quick, all in thorough). Non-trivial/distinct = distinct (Y,U,V) triples converted.',
        evaluations=stats.get('evaluations', 0), distinct=stats.get('distinct_triples', 0),
        extra_cov={'correspondence_cases': n, 'correspondence_disagreements': len(diffs), 'pixels': stats.get('pixels'),
                   'odd_width_planes': stats.get('odd_width_planes'), 'odd_height_planes': stats.get('odd_height_planes'),
                   'exhaustive': bool(stats.get('exhaustive_2pow24'))},
        assumptions=['per-pixel arithmetic is the rs2v translation of vp8.rs (regenerated this run)',
                     'row/plane loops (zip of chunks_exact) hand-modelled on the call pattern of fill_rgb/fill_rgba; tied by correspondence',
                     'libwebp reference = transcription of yuv.h in Spec/YUV.v (and in the harness for the native search)'])


def replay(run, path):
    p = json.loads(open(path).read())
    run.tools_stage()
    cf = run.rundir / 'replay_cases.txt'
    cf.write_text(p.get('case', '') + '\n')
    ok, out, stats = vflib.run_harness('c13', 'replay', run.seed, run.rundir, extra=[str(cf)])
    print(json.dumps(stats, indent=1))
    if stats.get('violations'):
        print('VIOLATION property=C13 replay=%s' % path)
        return 1
    return 0
