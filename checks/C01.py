"""C01 -- VP8L decoding matches the lossless specification (partial proof + whole-stream correspondence against the Coq Spec).
Deciding method: Coq theorems (Properties/C01.v): tables and transform kernels of the decoder = the specification's, over
definitions regenerated from the source every run; whole-stream correspondence implementation = Spec.VP8L.decode
(extracted) on seeded random legal streams; Spec adequacy against libwebp (c01spec); native comparison with libwebp on every stream
through six entry points (hook, simple file, VP8X alpha flag set/clear, single ANMF frame alpha flag set/clear)."""
from checks.common import run_components, finish_standard, replay_standard

def okh(line):
    """results above 16384 pixels are compared as FNV-1a 64 hashes (harness c01 and the oracle print them that way;
    c01spec prints full pixels)"""
    w = line.split(' ', 3)
    if len(w) == 4 and w[0] == 'OK' and int(w[1]) * int(w[2]) > 16384:
        h = 0xcbf29ce484222325
        for b in bytes.fromhex(w[3]):
            h = ((h ^ b) * 0x100000001b3) & 0xffffffffffffffff
        return 'OKH %s %s %016x' % (w[1], w[2], h)
    return line


COMPONENTS = [
    {'name': 'c01', 'oracle': True, 'what': 'LosslessDecoder::decode_frame vs Spec.VP8L.decode (and vs libwebp natively, all wrappings)'},
    {'name': 'c01model', 'oracle': True, 'what': 'Model (Rust-mirroring: BitReader, HuffmanTree, transforms, decode_frame) vs implementation through hooks, under fill_buf schedules'},
    {'name': 'c01spec', 'oracle': True, 'what': 'adequacy: Spec.VP8L.decode vs libwebp WebPDecodeRGBA', 'escalate': False},
]


def check(run):
    proofs_ok = run.proof_stage()
    agg, found = ({'evaluations': 0}, False)
    if run.tools_stage():
        agg, found = run_components(run, COMPONENTS, proofs_ok=proofs_ok)
    c = agg.get('components', {}).get('c01', {})
    return finish_standard(run, agg, found,
        rule='16 hand-made streams (one per known defect class F1-F4, F16) + seeded random legal streams: any subset/order of the four transforms, block bits 2..9, 14 '
             'predictor modes, palettes 1..256, cache bits 0..11, meta codes 1..N groups, simple (1/2 symbols, ascending/descending/equal) and normal codes up to 15 bits, '
             'single-symbol codes, max_symbol, repeat codes, literals / back-references (all 120 plane codes, codes > 120, distance < 1, overlap, length up to 4096) / cache '
             'hits incl. never-written slots; sizes 1..64, strips up to 16384, a deep scenario producing 55..58-bit back-references. Each stream decoded by libwebp (reference), '
             'by the crate through six entry points, and by the Coq Spec.',
        distinct_key=c.get('accepted_by_libwebp', 0),
        assumptions=['Spec.VP8L is a hand transcription of the lossless specification text, validated against compiled libwebp each run',
                     'predictor modes 14/15 and simple distance-code symbols >= 40 are outside the generated class (libwebp is lenient there; the format does not define them)',
                     'structural refinement of the Rust decoder to the Spec is not proved: covered by correspondence on generated legal streams'])


def replay(run, path):
    return replay_standard(run, path, 'c01')
