"""C08 -- header and metadata accessors report what the container holds (+ the container part of C03).
Deciding method: Coq theorems (Properties/C08.v: parse . serialize over every well-formed container of
Spec/Container.v; Properties/C03_container.v: the model of `new` never panics) over the hand-written model
Model/Container.v of decoder.rs::read_data / extended.rs::read_extended_header, tied to the code by the correspondence
check `c08` (implementation = Model on generated well-formed and malformed files, error class included).
Search = the harness decides C08 natively on every well-formed file (expected tuple computed from the structured
description, libwebp as adequacy check) and C03 (no panic) on every file.  Every well-formed description is also sent to
the oracle (`container_spec`): Spec.wf must hold, Spec.serialize must give the same bytes and the Spec's expected values
must equal the harness's, so the files the search calls well-formed are the ones the theorem quantifies over."""
import json
import vflib
from checks.common import correspondence, sample_cases


def check(run):
    proofs_ok = run.proof_stage(extra_targets=['Properties/C03_container.vo'])
    tools_ok = run.tools_stage(release=False)
    stats, n, diffs, found = {}, 0, [], False
    if tools_ok:
        tier = run.tier if proofs_ok else 'thorough'
        r = correspondence(run, 'c08', tier=tier)
        if r:
            stats, n, diffs = r
            run.oblige('correspondence(new + accessors: implementation = Model on %d files)' % n, not diffs, json.dumps(diffs[:3])[:3000])
            run.oblige('generator_adequacy(libwebp agrees on every strict file)', stats.get('n_adequacy_failures', 1) == 0,
                       json.dumps(stats.get('adequacy_failures', [])[:3])[:2000])
            for v in stats.get('violations', [])[:5]:
                case = v.split(': ', 1)[1].split(' -> ')[0] if ': ' in v else v
                run.violation('panic' if v.startswith('C03') else 'accessor', {'what': v[:200], 'case': case})
                found = True
            if diffs and not found:
                i, case, a, b = diffs[0]
                run.violation('model_mismatch', {'what': 'implementation and Model disagree', 'case': case, 'impl': a[:500], 'model': b[:500]})
                found = True
    failed = [o for o in run.obligations if not o[1]]
    if failed and not found:
        run.violation('obligation', {'what': 'proof obligation or model/code tie no longer checks; search found no failing input',
                                     'failed': [{'name': o[0], 'detail': o[2][-1500:]} for o in failed]}, no_input=True)
    return run.finish(
        samples=sample_cases(run),
        rule='seeded generator of well-formed containers from a structured description (4 layouts, all flag combinations, dimensions '
             '1/16383/16384/2^24, unknown chunks at every position, odd payloads, duplicates, 1..6 frames, loop counts 0/1/65535, memory '
             'limits around the payload sizes) + mutations (truncation at every offset, size fields, FourCCs, flags, chunk list edits)',
        evaluations=stats.get('evaluations', 0), distinct=stats.get('well_formed', 0),
        extra_cov={'correspondence_cases': n, 'correspondence_disagreements': len(diffs),
                   'input_distribution': stats.get('distribution'),
                   'well_formed': stats.get('well_formed'), 'strict_checked_by_libwebp': stats.get('strict'),
                   'libwebp_agrees': stats.get('libwebp_agrees'), 'malformed': stats.get('malformed'),
                   'malformed_accepted': stats.get('malformed_accepted'), 'malformed_rejected': stats.get('malformed_rejected')},
        assumptions=['Model/Container.v is a hand model of decoder.rs::read_data, read_chunk, accessors and extended.rs::read_extended_header '
                     '(std::io::Cursor semantics of read_exact / seek / seek_relative modelled); tied by correspondence only',
                     'the model includes fix F1 (VP8L width/height); on the unfixed tree the 16384-wide files are reported as violations'])


def replay(run, path):
    p = json.loads(open(path).read())
    run.tools_stage()
    cf = run.rundir / 'replay_cases.txt'
    cf.write_text(p.get('case', '') + '\n')
    ok, out, stats = vflib.run_harness('c08', 'replay', run.seed, run.rundir, extra=[str(cf)])
    print(json.dumps({k: stats.get(k) for k in ('evaluations', 'n_violations', 'violations')}, indent=1))
    oko, logo = vflib.run_oracle(str(run.rundir / 'cases.txt'), str(run.rundir / 'model.txt'))
    n, diffs = vflib.diff_results(run.rundir)
    bad = bool(stats.get('violations')) or bool(diffs)
    if bad:
        print('VIOLATION property=C08 replay=%s' % path)
    return 1 if bad else 0
