"""C14 -- encoder prefix codes complete, length-limited, canonical.
Deciding method: Coq theorems (Properties/C14.v) about Model.Encoder.build_huffman_tree for every histogram / limit /
tie-break, plus the certified checker c14_ok (proved equivalent to the property) applied by the oracle to the
implementation's own (flag, lengths, codes) on every case (`huffchk` lines, expected answer `ok`);
correspondence implementation <-> Model through hook verif::build_huffman_tree (`huff` lines, std's sort order replayed),
and of the model of std's unstable sort (`sortchk` lines); native exact decision of the property in the harness."""
import json
import vflib
from checks.common import correspondence, sample_cases, run_components


def check(run):
    proofs_ok = run.proof_stage()
    tools_ok = run.tools_stage(release=False)
    stats, n, diffs, found = {}, 0, [], False
    if tools_ok:
        tier = run.tier if proofs_ok else 'thorough'
        r = correspondence(run, 'c14', tier=tier)
        if r:
            stats, n, diffs = r
            chk = [d for d in diffs if d[1].startswith('huffchk')]
            cor = [d for d in diffs if not d[1].startswith('huffchk')]
            run.oblige('correspondence(build_huffman_tree / std sort: implementation = Model on %d cases)' % n, not cor, json.dumps(cor[:3]))
            for v in stats.get('violations', [])[:1]:
                run.violation('huffman_property', {'what': 'implementation output violates C14 (native exact decision)', 'case': v.split(' -> ')[0], 'detail': v})
                found = True
            for d in chk[:1]:
                run.violation('huffman_checker', {'what': 'certified checker c14_ok rejects the implementation output', 'case': d[1].replace('huffchk', 'huff', 1).rsplit(' ', 3)[0], 'detail': d[1][:2000]})
                found = True
            for d in cor[:1]:
                if not found and d[1].startswith('huff '):
                    run.violation('huffman_model_mismatch', {'what': 'implementation and Model disagree', 'case': d[1], 'impl': d[2][:2000], 'model': d[3][:2000]})
                    found = True
        # the limits the encoder *uses* (15 / 7) are fixed at the call sites of write_huffman_tree, not in build_huffman_tree:
        # whole-encode component (output bytes = Model bytes; both decoders return the input) on images whose histograms force both limits
        agg, found2 = run_components(run, [{'name': 'c04', 'oracle': True, 'what': 'encoder call sites: encode output = Model and round-trips (limits 15 and 7 as used by write_huffman_tree)'}], proofs_ok=proofs_ok)
        found = found or found2
        enc_component = agg.get('components', {}).get('c04', {})
    else:
        enc_component = {}
    failed = [o for o in run.obligations if not o[1]]
    if failed and not found:
        run.violation('obligation', {'what': 'proof obligation or model/code tie no longer checks; search found no failing input',
                                     'failed': [{'name': o[0], 'detail': o[2][-1500:]} for o in failed]}, no_input=True)
    return run.finish(
        samples=sample_cases(run),
        rule='all frequency vectors over 2..5 (thorough: 6) symbols with entries 0..6 x limits 2..4 (alphabet fits the limit); seeded adversarial '
             'families on 16/256/280 symbols with limits 7/15 (Fibonacci, powers of two, one dominant, all equal, two-level ties, needs-limit-exactly, '
             'Zipf, sparse, geometric, random, Fibonacci + tied tail); key vectors for the model of std sort_unstable. Non-trivial = a code is built.',
        evaluations=stats.get('evaluations', 0), distinct=stats.get('outcomes', {}).get('code', 0),
        extra_cov={'correspondence_cases': n, 'correspondence_disagreements': len(diffs),
                   'input_distribution': {k: stats.get(k) for k in ('families', 'alphabet_sizes', 'limits', 'outcomes', 'max_length_histogram')},
                   'max_length_reaches_limit': stats.get('max_length_reaches_limit'),
                   'std_sort_order_differs_from_stable': stats.get('std_sort_order_differs_from_stable'),
                   'encoder_call_site_component': {k: enc_component.get(k) for k in ('evaluations', 'outcomes') if k in enc_component}},
        assumptions=['hand model of build_huffman_tree and of std BinaryHeap / sort_unstable (Rust 1.95) tied by correspondence',
                     'theorem hypotheses: counts are non-negative and sum to less than 2^32 (u32 counters of at most 2*16384^2 pixels), '
                     'the alphabet fits the limit (n <= 2^L: 16 <= 2^7, 256/280 <= 2^15)'])


def replay(run, path):
    p = json.loads(open(path).read())
    run.tools_stage()
    cf = run.rundir / 'replay_cases.txt'
    cf.write_text(p.get('case', '') + '\n')
    ok, out, stats = vflib.run_harness('c14', 'replay', run.seed, run.rundir, extra=[str(cf)])
    oko, logo = vflib.run_oracle(str(run.rundir / 'cases.txt'), str(run.rundir / 'model.txt'))
    n, diffs = vflib.diff_results(run.rundir)
    print(json.dumps(stats, indent=1)[:3000])
    bad = bool(stats.get('violations')) or bool(diffs)
    if bad:
        print('VIOLATION property=C14 replay=%s' % path)
    return 1 if bad else 0
