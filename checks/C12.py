"""C12 -- alpha blending exact at the extremes, tightly bounded elsewhere.
Deciding method: Coq theorems (Properties/C12.v) over the kernel regenerated from alpha_blending.rs by tools/rs2v.py;
correspondence of the 4-byte wrapper through hook verif::blend; search = native exact decision of the property on
every case (all 2^32 channel-wise inputs in the thorough tier or whenever a proof obligation / the tie breaks)."""
import json
import vflib
from checks.common import correspondence, sample_cases

KNOWN_CLASS = 'opaque-source-decrement'


def decide(run, stats, n, diffs, proofs_ok):
    known = vflib.known_findings('C12')
    found_input = False
    for v in stats.get('violations', []):
        run.violation('blend_property', {'what': 'implementation output violates C12 (native exact decision)', 'case': v.split(' -> ')[0], 'detail': v})
        found_input = True
        break
    if stats.get('known', 0) > 0:
        if KNOWN_CLASS in known:
            run.known('%s %s: %d blends with source alpha 255 returned the source with non-zero channels decremented'
                      % (known[KNOWN_CLASS][0], KNOWN_CLASS, stats['known']))
        else:
            run.violation('blend_opaque', {'what': 'opaque source not preserved', 'case': 'blend 200 1 0 255 7 7 7 7'})
            found_input = True
    return found_input


def check(run):
    proofs_ok = run.proof_stage()
    tools_ok = run.tools_stage(release=False)
    stats, n, diffs = {}, 0, []
    found = False
    if tools_ok:
        # a broken obligation or tie triggers the enlarged search (the whole 2^32 domain)
        tier = run.tier if proofs_ok else 'thorough'
        r = correspondence(run, 'c12', tier=tier)
        if r:
            stats, n, diffs = r
            run.oblige('correspondence(do_alpha_blending: implementation = Model on %d sampled cases)' % n, not diffs,
                       json.dumps(diffs[:3]))
            if diffs and proofs_ok and tier != 'thorough':
                r2 = correspondence(run, 'c12', tier='thorough')
                if r2:
                    stats, n, diffs = r2
            found = decide(run, stats, n, diffs, proofs_ok)
            # per-pixel use of the blend in the blended-frame branch of composite_frame / read_frame (public API): animations with
            # blended frames of every width parity against the independent canvas model (harness c06)
            keep = run.rundir
            run.rundir = keep / 'c06'
            ok6, out6, st6 = vflib.run_harness('c06', run.tier, run.seed, run.rundir)
            run.rundir = keep
            if not ok6:
                run.oblige('harness_run(c06)', False, out6[-1500:])
            else:
                stats['animation_component'] = {k: st6.get(k) for k in ('animations', 'frames', 'blend_transparent', 'blend_opaque', 'blend_mid', 'pixels_judged')}
                for v in st6.get('violations_c06', [])[:1]:
                    run.violation('blend_in_animation', {'what': 'blended animation frame violates the blend property through the public API', 'check': 'c06',
                                                         'case': v.split(' -> ')[0], 'detail': v[-600:]})
                    found = True
    failed = [o for o in run.obligations if not o[1]]
    if failed and not found:
        run.violation('obligation', {'what': 'proof obligation or model/code tie no longer checks; search found no failing input',
                                     'failed': [{'name': o[0], 'detail': o[2][-1500:]} for o in failed],
                                     'search': {k: stats.get(k) for k in ('evaluations', 'exhaustive_2pow32')}}, no_input=True)
    return run.finish(
        samples=sample_cases(run),
        rule='(sa,da) pairs exhaustively x edge channel values {0,1,2,127,128,253,254,255}^2, plus seeded random pixel pairs '
             'biased to alpha 0/1/254/255; thorough: all 2^32 (sc,sa,dc,da). Non-trivial = 0 < source alpha < 255 (the bounded-error clause); '
             'distinct by construction (enumeration) / by seed.',
        evaluations=stats.get('evaluations', 0), distinct=stats.get('mid', 0),
        extra_cov={'correspondence_cases': n, 'correspondence_disagreements': len(diffs),
                   'input_distribution': {k: stats.get(k) for k in ('transparent', 'opaque', 'mid', 'known_opaque_dec')},
                   'max_alpha_err_x255': stats.get('max_alpha_err_x255'), 'max_weighted_channel_err_milli': stats.get('max_chan_err_milli'),
                   'exhaustive': bool(stats.get('exhaustive_2pow32')), 'animation_component': stats.get('animation_component')},
        assumptions=['blend kernel is the rs2v translation of alpha_blending.rs (regenerated this run)',
                     'u32::from_le_bytes/to_le_bytes wrapper hand-modelled; tied by correspondence through verif::blend'])


def replay(run, path):
    p = json.loads(open(path).read())
    run.tools_stage()
    cf = run.rundir / 'replay_cases.txt'
    cf.write_text(p.get('case', '') + '\n')
    ok, out, stats = vflib.run_harness('c12', 'replay', run.seed, run.rundir, extra=[str(cf)])
    print(json.dumps(stats, indent=1))
    bad = bool(stats.get('violations')) or (stats.get('known', 0) > 0 and KNOWN_CLASS not in vflib.known_findings('C12'))
    if bad:
        print('VIOLATION property=C12 replay=%s' % path)
    return 1 if bad else 0
