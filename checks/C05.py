"""C05 -- lossy stills: RGB(A) conversion and the alpha plane are exact (partial proof).
Deciding method: Coq theorems (Properties/C05.v): plane-level conversion = libwebp no-fancy BT.601 for every size/parity (kernels
regenerated from vp8.rs every run), alpha loop = container-spec un-filtering for all four filters; tied by correspondence
through hooks (fill_rgb/fill_rgba, apply_alpha); still-level differential decision against libwebp when the c05 harness is present."""
import vflib
from checks.common import run_components, finish_standard, replay_standard

COMPONENTS = [
    {'name': 'c05', 'oracle': True, 'what': 'lossy stills (VP8 + every ALPH variant, simple and VP8X containers): read_image vs Spec.Still (composed Coq spec) and vs libwebp no-fancy',
     'normalise': lambda s: 'ERR' if (s.startswith('ERR') or s.startswith('Err') or s.startswith('error')) else s},
    {'name': 'readimage', 'oracle': True, 'what': 'read_image / read_frame glue through the public API (stills with every ALPH variant, wrappings, size mismatches, wrong buffer lengths, animations with chunks between frames) vs Model.ReadImage'},
    {'name': 'c13', 'oracle': True, 'what': 'fill_rgb / fill_rgba planes', 'normalise': lambda s: s.replace(' SPECDIFF', '')},
    {'name': 'alpha', 'oracle': True, 'what': 'alpha application loop', 'normalise': lambda s: s.replace(' SPECDIFF', '')},
]


def check(run):
    proofs_ok = run.proof_stage()
    agg, found = ({'evaluations': 0}, False)
    if run.tools_stage():
        agg, found = run_components(run, COMPONENTS, proofs_ok=proofs_ok)
    return finish_standard(run, agg, found,
        rule='random planes (all width/height parities, edge-biased samples) through both writers + triple sweep; random alpha planes x 4 filters x '
             'widths {1,2,3,4,7,8,15,16,17} x heights {1,2,3,5,8,9} with random pre-filled buffers',
        assumptions=['VP8 plane reconstruction (C02) and compressed-alpha decoding (C01) are inherited links, not proved here'])


def replay(run, path):
    return replay_standard(run, path, 'c05')
