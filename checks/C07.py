"""C07 -- animation playback independent of the call history.
Deciding method: Coq theorems (Properties/C07.v) over the AnimationState machine of Model.Anim (repaired tree: fix_F15), tied to the
code by the correspondence check `c06` (call sequences over read_frame / reset_animation / read_image through the public API
against the extracted Model.Anim.run_ops); search = every call of every generated sequence compared with what a fresh decoder
delivers, buffers pre-filled with a sentinel."""
import json
import vflib
from checks.common import correspondence, sample_cases, run_components

KNOWN_CLASS = 'opaque-source-decrement'
PROP = 'C07'
VKEY = 'violations_c07'


def decide(run, stats):
    known = vflib.known_findings(PROP)
    found = False
    for v in stats.get(VKEY, []):
        case = v.split(' -> ')[0]
        run.violation('anim_property', {'what': 'implementation output violates %s (native decision against the canvas model)' % PROP,
                                        'case': case, 'detail': v[-600:]})
        found = True
        break
    if PROP == 'C06' and stats.get('known', 0) > 0:
        if KNOWN_CLASS in known:
            run.known('%s %s: %d blended pixels with source alpha 255 came out with their non-zero colour channels decremented'
                      % (known[KNOWN_CLASS][0], KNOWN_CLASS, stats['known']))
        else:
            run.violation('anim_opaque_blend', {'what': 'opaque source pixel of a blended frame not preserved',
                                                'case': 'composite 1 1 00000000 - c80100ff 0 0 1 1 1 1 0 0 0 0'})
            found = True
    return found


def check(run):
    proofs_ok = run.proof_stage()
    tools_ok = run.tools_stage(release=False)
    stats, n, diffs = {}, 0, []
    found = False
    if tools_ok:
        tier = run.tier if proofs_ok else 'thorough'
        r = correspondence(run, 'c06', tier=tier)
        if r:
            stats, n, diffs = r
            run.oblige('correspondence(read_frame/reset_animation/read_image/composite_frame: implementation = Model on %d cases)' % n,
                       not diffs, json.dumps([(d[0], d[1][:300], d[2][:200], d[3][:200]) for d in diffs[:3]]))
            run.oblige('generator_adequate(libwebp accepts every generated file; canvas model = WebPAnimDecoder on %d comparable animations)'
                       % stats.get('libwebp_anim_adequacy_cases', 0),
                       not stats.get('libwebp_anim_adequacy_mismatch') and stats.get('generator_rejected', 0) == 0,
                       json.dumps(stats.get('libwebp_anim_adequacy_mismatch', []))[:600])
            found = decide(run, stats)
        # the same clauses under reader schedules and one transient I/O fault: the k-th *successful* read_frame is the k-th frame,
        # read_image (also in the middle of playback) is the first frame, the first frame after a reset is frame 1
        agg2, found2 = run_components(run, [{'name': 'c10', 'oracle': False, 'escalate': False,
                                             'what': 'API call sequences under reader schedules and one transient fault (k-th successful read_frame = k-th frame)'},
                                            {'name': 'readimage', 'oracle': True, 'escalate': False, 'what': 'call sequences (read_frame / reset_animation / read_image / buffer refill, incl. failing calls) on the decoder working on the file bytes vs Model.ReadImageOps'}], proofs_ok=proofs_ok)
        found = found or found2
    failed = [o for o in run.obligations if not o[1]]
    if failed and not found:
        run.violation('obligation', {'what': 'proof obligation or model/code tie no longer checks; search found no failing input',
                                     'failed': [{'name': o[0], 'detail': o[2][-1500:]} for o in failed],
                                     'search': {k: stats.get(k) for k in ('evaluations', 'animations', 'calls')}}, no_input=True)
    keys = ('animations', 'files_run', 'frames', 'frame_kinds', 'noblend_nodispose', 'noblend_dispose', 'blend_nodispose', 'blend_dispose',
            'first_frame_partial', 'canvas_pixels_min', 'canvas_pixels_median', 'canvas_pixels_max', 'pixels_judged', 'overwritten',
            'untouched', 'disposed', 'blend_transparent', 'blend_opaque', 'blend_mid', 'known_opaque_dec', 'calls', 'calls_read_frame',
            'calls_reset', 'calls_read_image', 'buffer_fills', 'reads_past_end', 'composite_cases', 'composite_invalid_geometry',
            'payload_decode_differs_from_libwebp', 'libwebp_anim_adequacy_cases', 'generator_rejected')
    return run.finish(
        samples=sample_cases(run),
        rule='hand-built corpus (disposal, background order, reset, opaque blend) + seeded random animations: canvas 1..40 (two thirds 1..12), '
             '1..6 frames, even offsets, sub-rectangles and full frames, all four blend/dispose combinations, payloads VP8L (crate encoder, '
             'libwebp lossless exact), VP8, ALPH+VP8 (libwebp), alpha 0/255/intermediate, background with B != R, both values of the VP8X '
             'alpha flag, call sequences of length <= 30 over read_frame/reset/read_image with caller buffer fills; plus direct '
             'composite_frame calls on random canvases. Non-trivial = every animation (each has a background-visible or composited pixel); '
             'distinct by seed.',
        evaluations=stats.get('evaluations', 0), distinct=stats.get('animations', 0) + stats.get('composite_cases', 0),
        extra_cov={'correspondence_cases': n, 'correspondence_disagreements': len(diffs),
                   'input_distribution': {k: stats.get(k) for k in keys}},
        assumptions=['frame payload decoding is outside the model: the model is given each frame as decoded by the still-image path of the crate '
                     '(C01/C02/C05 speak about it; frames whose decoding differs from libwebp are counted in payload_decode_differs_from_libwebp)',
                     'Model.Anim is a hand model of composite_frame/read_frame/reset_animation/read_image, tied by correspondence through the public '
                     'API and hook verif::composite_frame; byte offsets of ANMF chunks abstracted to frame indices',
                     'canvases of 2^32 bytes or more: covered by the theorems (Model.Anim mirrors fix F11: usize::checked_mul, ImageTooLarge when the product '
                     'does not fit; Proofs/Container_fits.wf_canvas_fits shows that branch unreachable for a well-formed file) but by no correspondence '
                     'case -- the harness allocates no canvas above 40x40, so a return of the u32 arithmetic would be seen by the F11 note in '
                     'known_findings.txt only through reading, not by this check'])


def replay(run, path):
    p = json.loads(open(path).read())
    run.tools_stage()
    cf = run.rundir / 'replay_cases.txt'
    cf.write_text(p.get('case', '') + '\n')
    ok, out, stats = vflib.run_harness('c06', 'replay', run.seed, run.rundir, extra=[str(cf)])
    print(json.dumps({k: v for k, v in stats.items() if not k.startswith('violations')}, indent=1))
    bad = bool(stats.get(VKEY)) or (PROP == 'C06' and stats.get('known', 0) > 0 and KNOWN_CLASS not in vflib.known_findings(PROP))
    if bad:
        print('VIOLATION property=%s replay=%s' % (PROP, path))
    return 1 if bad else 0
