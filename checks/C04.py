"""C04 -- the lossless encoder round-trips every image.
Deciding method: Coq theorems (Properties/C04.v: dimension clause, BitWriter packing, run tokens) + exact correspondence
of the produced bytes with Model.Encoder.encode on every case + native decision in the harness (libwebp WebPDecodeRGBA and
the crate's own decoder both return the input pixels and dimensions; strict container parser)."""
import json
import vflib
from checks.common import correspondence, sample_cases

KNOWN_CLASS = 'own-decoder-16384'


def check(run):
    proofs_ok = run.proof_stage()
    tools_ok = run.tools_stage(release=False)
    stats, n, diffs, found = {}, 0, [], False
    if tools_ok:
        tier = run.tier if proofs_ok else 'thorough'
        r = correspondence(run, 'c04', tier=tier)
        if r:
            stats, n, diffs = r
            run.oblige('correspondence(WebPEncoder::encode: output bytes = Model on %d cases)' % n, not diffs,
                       json.dumps([(d[0], d[1][:200], d[2][:120], d[3][:120]) for d in diffs[:3]]))
            for v in stats.get('violations', [])[:1]:
                run.violation('encode_roundtrip', {'what': 'encoder output violates C04 (native decision)', 'detail': v})
                found = True
            for d in diffs[:1]:
                if not found:
                    run.violation('encode_model_mismatch', {'what': 'implementation and Model disagree', 'case': d[1], 'impl': d[2][:400], 'model': d[3][:400]})
                    found = True
            if stats.get('known_F1_own_decoder_16384', 0) > 0:
                known = vflib.known_findings('C04')
                if KNOWN_CLASS in known:
                    run.known('%s %s: %d files of width/height 16384 (decoded exactly by libwebp) are refused by the own decoder'
                              % (known[KNOWN_CLASS][0], KNOWN_CLASS, stats['known_F1_own_decoder_16384']))
                else:
                    run.violation('own_decoder_16384', {'what': 'own decoder refuses a 16384-wide/high file the encoder wrote (F1)',
                                                        'case': 'encode L8 16384 1 1 - - - ' + '07' * 16384})
                    found = True
    failed = [o for o in run.obligations if not o[1]]
    if failed and not found:
        run.violation('obligation', {'what': 'proof obligation or model/code tie no longer checks; search found no failing input',
                                     'failed': [{'name': o[0], 'detail': o[2][-1500:]} for o in failed]}, no_input=True)
    return run.finish(
        samples=[{'case': s['case'][:200], 'impl': s['impl'][:200]} for s in sample_cases(run)],
        rule='13 pixel statistics x 4 colour types x predictor on/off on sizes 1..64 x 1..64, corner sizes, 1xN / Nx1 with N up to 16384 '
             '(run boundaries 4096/4097), exact-Fibonacci images that force the 15-bit limit, tied-tail images where the unstable sort decides; '
             'invalid dimensions; mismatched buffers. Non-trivial = encode succeeds and is decoded by two decoders.',
        evaluations=stats.get('evaluations', 0), distinct=stats.get('outcomes', {}).get('OK', 0),
        extra_cov={'correspondence_cases': n, 'correspondence_disagreements': len(diffs),
                   'input_distribution': {k: stats.get(k) for k in ('styles', 'colour_types', 'shapes', 'outcomes', 'predictor_off_on', 'with_metadata', 'pixels_total')},
                   'documented_panics_buffer_mismatch': stats.get('documented_panics_buffer_mismatch')},
        assumptions=['hand model of encoder.rs tied by byte-exact correspondence; libwebp 1.3.1 (libwebp-sys) as the independent decoder',
                     'a buffer whose length does not match the dimensions panics (assert_eq!, documented under "# Panics"); recorded, not a violation'])


def replay(run, path):
    p = json.loads(open(path).read())
    run.tools_stage()
    cf = run.rundir / 'replay_cases.txt'
    cf.write_text(p.get('case', '') + '\n')
    ok, out, stats = vflib.run_harness('c04', 'replay', run.seed, run.rundir, extra=[str(cf)])
    oko, logo = vflib.run_oracle(str(run.rundir / 'cases.txt'), str(run.rundir / 'model.txt'))
    n, diffs = vflib.diff_results(run.rundir)
    print(json.dumps(stats, indent=1)[:3000])
    bad = bool(stats.get('violations')) or bool(diffs) or (stats.get('known_F1_own_decoder_16384', 0) > 0 and KNOWN_CLASS not in vflib.known_findings('C04'))
    if bad:
        print('VIOLATION property=C04 replay=%s' % path)
    return 1 if bad else 0
